package main

import (
	"bytes"
	"encoding/binary"
	"errors"
	"fmt"
	"io"
	"strconv"
	"strings"

	capnp "capnproto.org/go/capnp/v3"
	"verifharness/lib"
)

// ---- value trees on the line protocol: N | C<idx> | S<hex>(<ptrs>) | L<ek>,<n>,<ds>,<pc>:<hex>(<elems>)

func valStr(v *Val) string {
	var sb strings.Builder
	writeVal(&sb, v)
	return sb.String()
}

func writeVal(sb *strings.Builder, v *Val) {
	if v == nil || v.Kind == vNull {
		sb.WriteString("N")
		return
	}
	switch v.Kind {
	case vCap:
		sb.WriteString("C" + strconv.FormatUint(uint64(v.Cap), 10))
	case vStruct:
		sb.WriteString("S" + lib.Hex(v.Data) + "(")
		for _, p := range v.Ptrs {
			writeVal(sb, p)
		}
		sb.WriteString(")")
	case vList:
		sb.WriteString(fmt.Sprintf("L%d,%d,%d,%d:%s(", v.EK, v.N, v.DS, v.PC, lib.Hex(v.Prim)))
		for _, p := range v.Elems {
			writeVal(sb, p)
		}
		sb.WriteString(")")
	}
}

type valParser struct {
	s   string
	pos int
}

func (p *valParser) until(stop string) string {
	i := strings.IndexAny(p.s[p.pos:], stop)
	if i < 0 {
		i = len(p.s) - p.pos
	}
	r := p.s[p.pos : p.pos+i]
	p.pos += i
	return r
}

func (p *valParser) val(inList bool) (*Val, error) {
	if p.pos >= len(p.s) {
		return nil, errors.New("eof")
	}
	c := p.s[p.pos]
	p.pos++
	switch c {
	case 'N':
		return &Val{Kind: vNull}, nil
	case 'C':
		n, err := strconv.ParseUint(p.until("NCSL)"), 10, 32)
		return &Val{Kind: vCap, Cap: uint32(n)}, err
	case 'S':
		d, err := lib.UnHex(p.until("("))
		if err != nil {
			return nil, err
		}
		p.pos++
		v := &Val{Kind: vStruct, Data: d, InList: inList}
		for p.pos < len(p.s) && p.s[p.pos] != ')' {
			c, err := p.val(false)
			if err != nil {
				return nil, err
			}
			v.Ptrs = append(v.Ptrs, c)
		}
		p.pos++
		return v, nil
	case 'L':
		hdr := strings.Split(p.until(":"), ",")
		p.pos++
		if len(hdr) != 4 {
			return nil, errors.New("list header")
		}
		v := &Val{Kind: vList}
		v.EK, _ = strconv.Atoi(hdr[0])
		v.N, _ = strconv.Atoi(hdr[1])
		v.DS, _ = strconv.Atoi(hdr[2])
		v.PC, _ = strconv.Atoi(hdr[3])
		d, err := lib.UnHex(p.until("("))
		if err != nil {
			return nil, err
		}
		v.Prim = d
		p.pos++
		for p.pos < len(p.s) && p.s[p.pos] != ')' {
			c, err := p.val(v.EK == 7)
			if err != nil {
				return nil, err
			}
			v.Elems = append(v.Elems, c)
		}
		p.pos++
		return v, nil
	}
	return nil, errors.New("syntax")
}

func parseVal(s string) (*Val, error) {
	p := &valParser{s: s}
	return p.val(false)
}

// ---- arenas

// tightArena allocates every new segment with exactly the requested size plus `slack` bytes, so
// that segments are full (slack 0: every inter-segment pointer needs a double-far landing pad).
type tightArena struct {
	segs  [][]byte
	slack int
	first int
	dirty bool // new segments come with stale content beyond their length
}

func dirtyBuf(n int) []byte {
	b := make([]byte, n)
	for i := range b {
		b[i] = 0xd7
	}
	return b[:0]
}

func (a *tightArena) NumSegments() int64 { return int64(len(a.segs)) }
func (a *tightArena) Data(id capnp.SegmentID) ([]byte, error) {
	if int(id) >= len(a.segs) {
		return nil, errors.New("no such segment")
	}
	return a.segs[id], nil
}
func (a *tightArena) Allocate(minsz capnp.Size, segs map[capnp.SegmentID]*capnp.Segment) (capnp.SegmentID, []byte, error) {
	for i := range a.segs {
		d := a.segs[i]
		if s := segs[capnp.SegmentID(i)]; s != nil {
			d = s.Data()
		}
		if cap(d)-len(d) >= int(minsz) {
			return capnp.SegmentID(i), d, nil
		}
	}
	sz := (int(minsz)+7)&^7 + a.slack
	if len(a.segs) == 0 && a.first > sz {
		sz = a.first
	}
	b := make([]byte, 0, sz)
	if a.dirty {
		b = dirtyBuf(sz)
	}
	a.segs = append(a.segs, b)
	return capnp.SegmentID(len(a.segs) - 1), b, nil
}

func makeArena(spec string) capnp.Arena {
	t := strings.Split(spec, ":")
	n := 0
	if len(t) > 1 {
		n, _ = strconv.Atoi(t[1])
	}
	switch t[0] {
	case "single":
		if n == 0 {
			return capnp.SingleSegment(nil)
		}
		return capnp.SingleSegment(make([]byte, 0, n))
	case "multi":
		if n == 0 {
			return capnp.MultiSegment(nil)
		}
		return capnp.MultiSegment([][]byte{make([]byte, 0, n)})
	case "tight":
		m := 0
		if len(t) > 2 {
			m, _ = strconv.Atoi(t[2])
		}
		return &tightArena{slack: n, first: m}
	case "dsingle": // a recycled buffer: length 0, dirty capacity (the library must clear what it hands out)
		return capnp.SingleSegment(dirtyBuf(n))
	case "dmulti":
		return capnp.MultiSegment([][]byte{dirtyBuf(n)})
	case "dtight":
		m := 0
		if len(t) > 2 {
			m, _ = strconv.Atoi(t[2])
		}
		return &tightArena{slack: n, first: m, dirty: true}
	}
	return capnp.SingleSegment(nil)
}

var arenaSpecs = []string{"single", "single:8", "single:64", "single:4096", "multi", "multi:8", "multi:16", "multi:64",
	"tight:0", "tight:0:24", "tight:8", "tight:8:16", "tight:16", "tight:64",
	"dsingle:64", "dsingle:4096", "dmulti:16", "dmulti:256", "dtight:0", "dtight:8:16", "dtight:64",
	// capacities that are not whole words: the last 1-7 bytes can never be used
	"single:44", "single:61", "single:9", "multi:42", "multi:13", "dsingle:50", "dmulti:27"}

// ---- building through the public API

type builder struct {
	r       *lib.Rng
	topDown bool // attach the empty object first, fill it afterwards
	noise   bool // write a temporary other value first, then overwrite it
}

func (b *builder) fillStruct(st capnp.Struct, v *Val) error {
	for k := 0; k+8 <= len(v.Data); k += 8 {
		if b.noise && b.r.Chance(1, 3) {
			st.SetUint64(capnp.DataOffset(k), b.r.U64())
		}
		w := binary.LittleEndian.Uint64(v.Data[k:])
		switch b.r.Intn(3) {
		case 0:
			st.SetUint64(capnp.DataOffset(k), w)
		case 1:
			st.SetUint32(capnp.DataOffset(k), uint32(w))
			st.SetUint32(capnp.DataOffset(k+4), uint32(w>>32))
		default:
			for j := 0; j < 8; j++ {
				st.SetUint8(capnp.DataOffset(k+j), v.Data[k+j])
			}
		}
	}
	order := b.r.Intn(2)
	for ii := range v.Ptrs {
		i := ii
		if order == 1 {
			i = len(v.Ptrs) - 1 - ii
		}
		if b.noise && b.r.Chance(1, 4) {
			tmp, _ := capnp.NewStruct(st.Segment(), capnp.ObjectSize{DataSize: 8})
			tmp.SetUint64(0, 0xdeadbeef)
			if err := st.SetPtr(uint16(i), tmp.ToPtr()); err != nil {
				return err
			}
		}
		if c := v.Ptrs[i]; c != nil && c.Kind == vList && c.EK == 2 && c.N >= 1 && b.r.Chance(1, 2) {
			// a byte list through the byte-oriented API: SetData / SetText / SetTextFromBytes / NewData / NewText
			var err error
			textShaped := c.N >= 2 && c.Prim[c.N-1] == 0
			switch k := b.r.Intn(5); {
			case textShaped && k == 0:
				err = st.SetText(uint16(i), string(c.Prim[:c.N-1]))
			case textShaped && k == 1:
				err = st.SetTextFromBytes(uint16(i), c.Prim[:c.N-1])
			case textShaped && k == 2:
				var l capnp.UInt8List
				l, err = capnp.NewTextFromBytes(st.Segment(), c.Prim[:c.N-1])
				if err == nil {
					err = st.SetPtr(uint16(i), l.ToPtr())
				}
			case k == 3:
				var l capnp.UInt8List
				l, err = capnp.NewData(st.Segment(), c.Prim)
				if err == nil {
					err = st.SetPtr(uint16(i), l.ToPtr())
				}
			default:
				err = st.SetData(uint16(i), c.Prim)
			}
			if err != nil {
				return err
			}
			continue
		}
		if err := b.setPtr(st.Segment(), v.Ptrs[i], func(p capnp.Ptr) error { return st.SetPtr(uint16(i), p) }); err != nil {
			return err
		}
	}
	return nil
}

// setPtr creates v (preferring seg) and stores it with set; in top-down mode the object is attached empty and filled afterwards.
func (b *builder) setPtr(seg *capnp.Segment, v *Val, set func(capnp.Ptr) error) error {
	if v == nil || v.Kind == vNull {
		return set(capnp.Ptr{})
	}
	switch v.Kind {
	case vCap:
		return set(capnp.NewInterface(seg, capnp.CapabilityID(v.Cap)).ToPtr())
	case vStruct:
		st, err := capnp.NewStruct(seg, capnp.ObjectSize{DataSize: capnp.Size(len(v.Data)), PointerCount: uint16(len(v.Ptrs))})
		if err != nil {
			return err
		}
		if b.topDown {
			if err := set(st.ToPtr()); err != nil {
				return err
			}
			return b.fillStruct(st, v)
		}
		if err := b.fillStruct(st, v); err != nil {
			return err
		}
		return set(st.ToPtr())
	case vList:
		l, fill, err := b.newList(seg, v)
		if err != nil {
			return err
		}
		if b.topDown {
			if err := set(l.ToPtr()); err != nil {
				return err
			}
			return fill()
		}
		if err := fill(); err != nil {
			return err
		}
		return set(l.ToPtr())
	}
	return errors.New("bad value")
}

func (b *builder) newList(seg *capnp.Segment, v *Val) (capnp.List, func() error, error) {
	n := int32(v.N)
	switch v.EK {
	case 0:
		l := capnp.NewVoidList(seg, n)
		return l.List, func() error { return nil }, nil
	case 1:
		l, err := capnp.NewBitList(seg, n)
		return l.List, func() error {
			for i := 0; i < v.N; i++ {
				l.Set(i, v.Prim[i/8]>>(uint(i)%8)&1 == 1)
			}
			return nil
		}, err
	case 2:
		l, err := capnp.NewUInt8List(seg, n)
		return l.List, func() error {
			for i := 0; i < v.N; i++ {
				l.Set(i, v.Prim[i])
			}
			return nil
		}, err
	case 3:
		l, err := capnp.NewUInt16List(seg, n)
		return l.List, func() error {
			for i := 0; i < v.N; i++ {
				l.Set(i, binary.LittleEndian.Uint16(v.Prim[2*i:]))
			}
			return nil
		}, err
	case 4:
		l, err := capnp.NewUInt32List(seg, n)
		return l.List, func() error {
			for i := 0; i < v.N; i++ {
				l.Set(i, binary.LittleEndian.Uint32(v.Prim[4*i:]))
			}
			return nil
		}, err
	case 5:
		l, err := capnp.NewUInt64List(seg, n)
		return l.List, func() error {
			for i := 0; i < v.N; i++ {
				l.Set(i, binary.LittleEndian.Uint64(v.Prim[8*i:]))
			}
			return nil
		}, err
	case 6:
		l, err := capnp.NewPointerList(seg, n)
		return l.List, func() error {
			for i := 0; i < v.N; i++ {
				i := i
				if err := b.setPtr(l.Segment(), v.Elems[i], func(p capnp.Ptr) error { return l.Set(i, p) }); err != nil {
					return err
				}
			}
			return nil
		}, err
	case 7:
		l, err := capnp.NewCompositeList(seg, capnp.ObjectSize{DataSize: capnp.Size(8 * v.DS), PointerCount: uint16(v.PC)}, n)
		return l, func() error {
			for i := 0; i < v.N; i++ {
				if b.r.Chance(1, 3) { // via SetStruct (a copy into the element) instead of in place
					// the source may be of an older, smaller shape (trailing zero words / null pointers dropped),
					// and the slot may hold old content that the copy has to clear
					e := v.Elems[i]
					sds, spc := v.DS, v.PC
					if b.noise {
						for sds > 0 && allZero(e.Data[8*(sds-1):8*sds]) {
							sds--
						}
						for spc > 0 && e.Ptrs[spc-1].Kind == vNull {
							spc--
						}
						slot := l.Struct(i)
						for k := 0; k < 8*v.DS; k++ {
							slot.SetUint8(capnp.DataOffset(k), 0xbb)
						}
						for k := 0; k < v.PC; k++ {
							old, _ := capnp.NewStruct(l.Segment(), capnp.ObjectSize{DataSize: 8})
							old.SetUint64(0, 0x0123456789abcdef)
							slot.SetPtr(uint16(k), old.ToPtr())
						}
					}
					tmp, err := capnp.NewStruct(l.Segment(), capnp.ObjectSize{DataSize: capnp.Size(8 * sds), PointerCount: uint16(spc)})
					if err != nil {
						return err
					}
					if err := b.fillStruct(tmp, adjust(e, sds, spc)); err != nil {
						return err
					}
					if err := l.SetStruct(i, tmp); err != nil {
						return err
					}
					continue
				}
				if err := b.fillStruct(l.Struct(i), v.Elems[i]); err != nil {
					return err
				}
			}
			return nil
		}, err
	}
	return capnp.List{}, nil, errors.New("bad list kind")
}

// buildMessage builds v as the root of a new message in the given arena.
func buildMessage(arena string, mode int, seed uint64, v *Val) (*capnp.Message, error) {
	b := &builder{r: lib.NewRng(seed), topDown: mode&1 == 1, noise: mode&2 == 2}
	msg, seg, err := capnp.NewMessage(makeArena(arena))
	if err != nil {
		return nil, err
	}
	if err := b.setPtr(seg, v, msg.SetRoot); err != nil {
		return nil, err
	}
	return msg, nil
}

func liveTree(msg *capnp.Message) string {
	msg.ResetReadLimit(1 << 40)
	root, err := msg.Root()
	var sb strings.Builder
	treeBudget = 3000
	tree(&sb, root, err)
	return sb.String()
}

func shadowTree(v *Val) string {
	var sb strings.Builder
	renderVal(&sb, v)
	return sb.String()
}

// execBuild: "build make <arena> <mode> <seed> <val>": build through the API, then read back live and after
// every serialisation path; "ok" iff every path yields exactly the written tree.
func execBuild(t []string) string {
	if len(t) >= 1 && (t[0] == "spec" || t[0] == "valid") {
		return "ok"
	}
	if len(t) >= 1 && t[0] == "copydata" {
		return execCopyData(t)
	}
	if len(t) == 7 && t[0] == "copygrow" {
		return execCopyData(t)
	}
	if len(t) == 3 && t[0] == "alloc" {
		return execAlloc(t[1], t[2])
	}
	if len(t) < 5 {
		return "bad-op"
	}
	mode, _ := strconv.Atoi(t[2])
	seed, _ := strconv.ParseUint(t[3], 10, 64)
	v, err := parseVal(t[4])
	if err != nil {
		return "bad-op"
	}
	switch t[0] {
	case "make":
		msg, err := buildMessage(t[1], mode, seed, v)
		if err != nil {
			return "builderr"
		}
		want := shadowTree(v)
		if got := liveTree(msg); got != want {
			return "mismatch live " + got
		}
		return checkSerialisations(msg, want, lib.NewRng(seed))
	case "spec", "valid": // judged by the Lean spec alone
		return "ok"
	case "bigstruct": // "build bigstruct <arena> <mode> <seed> <val> <datasize>": struct sizes at the edge of the encodable range
		dsz, _ := strconv.Atoi(t[5])
		msg, seg, err := capnp.NewMessage(makeArena(t[1]))
		if err != nil {
			return "builderr"
		}
		st, err := capnp.NewRootStruct(seg, capnp.ObjectSize{DataSize: capnp.Size(dsz), PointerCount: uint16(mode)})
		if err != nil {
			return "refused"
		}
		last := (st.Size().DataSize - 8)
		st.SetUint64(capnp.DataOffset(last), 0xfeedfacecafebeef)
		if mode > 0 {
			ch, _ := capnp.NewStruct(seg, capnp.ObjectSize{DataSize: 8})
			ch.SetUint64(0, 42)
			st.SetPtr(uint16(mode-1), ch.ToPtr())
		}
		b, err := msg.Marshal()
		if err != nil {
			return "mismatch marshal"
		}
		m2, err := capnp.Unmarshal(b)
		if err != nil {
			return "mismatch unmarshal"
		}
		r2, err := m2.Root()
		if err != nil || !r2.Struct().IsValid() {
			return "mismatch root"
		}
		s2 := r2.Struct()
		if s2.Size().DataSize != capnp.Size((dsz+7)&^7) || int(s2.Size().PointerCount) != mode || s2.Uint64(capnp.DataOffset(last)) != 0xfeedfacecafebeef {
			return "mismatch readback " + strconv.Itoa(int(s2.Size().DataSize)) + "," + strconv.Itoa(int(s2.Size().PointerCount))
		}
		if mode > 0 {
			p, err := s2.Ptr(uint16(mode - 1))
			if err != nil || p.Struct().Uint64(0) != 42 {
				return "mismatch child"
			}
		}
		return "ok"
	case "bytes": // the marshalled segments (input of the independent decoder)
		msg, err := buildMessage(t[1], mode, seed, v)
		if err != nil {
			return "builderr"
		}
		s, ok := msgSegs(msg)
		if !ok {
			return "err"
		}
		return "ok " + s
	case "rmwbytes": // the segments of the message after a round trip through Marshal / Unmarshal and further allocation in each segment
		msg, err := buildMessage(t[1], mode, seed, v)
		if err != nil {
			return "builderr"
		}
		b, err := msg.Marshal()
		if err != nil {
			return "err"
		}
		m2, err := capnp.Unmarshal(b)
		if err != nil {
			return "err"
		}
		for id := int64(0); id < m2.NumSegments() && id < 4; id++ {
			sg, err := m2.Segment(capnp.SegmentID(id))
			if err != nil {
				return "err"
			}
			orphan, err := capnp.NewStruct(sg, capnp.ObjectSize{DataSize: 16, PointerCount: 1})
			if err != nil {
				return "err"
			}
			orphan.SetUint64(0, 0x7777777777777777)
			orphan.SetUint64(8, 0x7777777777777777)
			if tx, err := capnp.NewText(sg, "wwwwwwwwwwwwwwwwwwwwwww"); err == nil {
				orphan.SetPtr(0, tx.ToPtr())
			}
		}
		s, ok := msgSegs(m2)
		if !ok {
			return "err"
		}
		return "ok " + s
	case "copy":
		return execCopy(t, mode, seed, v)
	}
	return "bad-op"
}

func checkSerialisations(msg *capnp.Message, want string, r *lib.Rng) string {
	b, err := msg.Marshal()
	if err != nil {
		return "mismatch marshal-error"
	}
	m2, err := capnp.Unmarshal(b)
	if err != nil {
		return "mismatch unmarshal-error"
	}
	if got := liveTree(m2); got != want {
		return "mismatch marshal " + got
	}
	// a decoded message can be modified: new objects (allocated preferring each of its segments) must not land on
	// top of what is there
	for id := int64(0); id < m2.NumSegments() && id < 4; id++ {
		sg, err := m2.Segment(capnp.SegmentID(id))
		if err != nil {
			return "mismatch segment-error"
		}
		orphan, err := capnp.NewStruct(sg, capnp.ObjectSize{DataSize: 16, PointerCount: 1})
		if err != nil {
			return "mismatch alloc-error"
		}
		orphan.SetUint64(0, 0x7777777777777777)
		orphan.SetUint64(8, 0x7777777777777777)
		if tx, err := capnp.NewText(sg, "wwwwwwwwwwwwwwwwwwwwwww"); err == nil {
			orphan.SetPtr(0, tx.ToPtr())
		}
	}
	if got := liveTree(m2); got != want {
		return "mismatch modified-after-unmarshal " + got
	}
	if b2, err := m2.Marshal(); err != nil {
		return "mismatch remarshal-error"
	} else if m2b, err := capnp.Unmarshal(b2); err != nil {
		return "mismatch reunmarshal-error"
	} else if got := liveTree(m2b); got != want {
		return "mismatch remarshal " + got
	}
	pb, err := msg.MarshalPacked()
	if err != nil {
		return "mismatch marshalpacked-error"
	}
	m3, err := capnp.UnmarshalPacked(pb)
	if err != nil {
		return "mismatch unmarshalpacked-error"
	}
	if got := liveTree(m3); got != want {
		return "mismatch packed " + got
	}
	// the same packed bytes as a stream of their own, all available at once: the message's last word is the stream's last
	pd := capnp.NewPackedDecoder(bytes.NewReader(pb))
	m3b, err := pd.Decode()
	if err != nil {
		return "mismatch packed-stream-error"
	}
	if got := liveTree(m3b); got != want {
		return "mismatch packed-stream " + got
	}
	if _, err := pd.Decode(); err != io.EOF {
		return "mismatch packed-stream-not-eof"
	}
	for _, packed := range []bool{false, true} {
		var buf bytes.Buffer
		var enc *capnp.Encoder
		if packed {
			enc = capnp.NewPackedEncoder(&buf)
		} else {
			enc = capnp.NewEncoder(&buf)
		}
		// a small message first, so that a decoder reusing its buffer and Message meets a different, larger one next
		tiny, tseg, err := capnp.NewMessage(capnp.SingleSegment(nil))
		if err != nil {
			return "builderr"
		}
		if ts, err := capnp.NewRootStruct(tseg, capnp.ObjectSize{DataSize: 8}); err == nil {
			ts.SetUint64(0, 0x1122334455667788)
		}
		if err := enc.Encode(tiny); err != nil {
			return "mismatch encode-error"
		}
		if err := enc.Encode(msg); err != nil {
			return "mismatch encode-error"
		}
		if err := enc.Encode(msg); err != nil {
			return "mismatch encode-error"
		}
		if err := enc.Encode(tiny); err != nil { // … and a shorter one after it
			return "mismatch encode-error"
		}
		var rd io.Reader = &chunkReader{data: buf.Bytes(), chunks: genChunks(r)}
		if r.Intn(3) == 0 {
			rd = bytes.NewReader(buf.Bytes()) // everything available at once (the buffered fast paths of the packed reader)
		}
		var dec *capnp.Decoder
		if packed {
			dec = capnp.NewPackedDecoder(rd)
		} else {
			dec = capnp.NewDecoder(rd)
		}
		if r.Bool() {
			dec.ReuseBuffer()
		}
		m0, err := dec.Decode()
		if err != nil {
			return "mismatch decode-error"
		}
		if got := liveTree(m0); got != "S{8877665544332211|}" {
			return "mismatch stream-first " + got
		}
		for i := 0; i < 2; i++ {
			m4, err := dec.Decode()
			if err != nil {
				return "mismatch decode-error"
			}
			if got := liveTree(m4); got != want {
				return "mismatch stream " + got
			}
		}
		m5, err := dec.Decode()
		if err != nil {
			return "mismatch decode-error"
		}
		if got := liveTree(m5); got != "S{8877665544332211|}" {
			return "mismatch stream-last " + got
		}
		if _, err := dec.Decode(); err != io.EOF {
			return "mismatch stream-not-eof"
		}
	}
	return "ok"
}

// ---- C16: deep copy

// treeCapByClient makes tree() render a capability by the identity of the client in the message's
// table (position among the harness's shared clients) instead of by table index.
var treeCapByClient bool

func clientID(msg *capnp.Message, idx uint32) string {
	if msg == nil || int(idx) >= len(msg.CapTable) {
		return "?" + strconv.FormatUint(uint64(idx), 10)
	}
	for k, c := range sharedClients() {
		if msg.CapTable[idx].IsSame(c) {
			return strconv.Itoa(k)
		}
	}
	return "?"
}

// adjust returns v (a struct) truncated / zero-extended to ds words and pc pointers.
func adjust(v *Val, ds, pc int) *Val {
	w := &Val{Kind: vStruct, Data: make([]byte, 8*ds)}
	copy(w.Data, v.Data)
	for i := 0; i < pc; i++ {
		if i < len(v.Ptrs) {
			w.Ptrs = append(w.Ptrs, v.Ptrs[i])
		} else {
			w.Ptrs = append(w.Ptrs, &Val{Kind: vNull})
		}
	}
	return w
}

// scribble overwrites, in place, every data byte reachable from p (structs' data, primitive and bit lists).
func scribble(p capnp.Ptr, depth int) {
	if depth > 40 || !p.IsValid() {
		return
	}
	switch {
	case p.Struct().IsValid():
		scribbleStruct(p.Struct(), depth)
	case p.List().IsValid():
		l := p.List()
		flags, ds, pc := capnp.VerifListInfo(l)
		for i := 0; i < l.Len(); i++ {
			switch {
			case flags == 2:
				capnp.BitList{List: l}.Set(i, !capnp.BitList{List: l}.At(i))
			case flags == 1:
				scribbleStruct(l.Struct(i), depth)
			case pc == 1:
				if q, err := (capnp.PointerList{List: l}).At(i); err == nil {
					scribble(q, depth+1)
				}
			case ds == 1:
				capnp.UInt8List{List: l}.Set(i, ^capnp.UInt8List{List: l}.At(i))
			case ds == 2:
				capnp.UInt16List{List: l}.Set(i, ^capnp.UInt16List{List: l}.At(i))
			case ds == 4:
				capnp.UInt32List{List: l}.Set(i, ^capnp.UInt32List{List: l}.At(i))
			case ds == 8:
				capnp.UInt64List{List: l}.Set(i, ^capnp.UInt64List{List: l}.At(i))
			}
		}
	}
}

func scribbleStruct(s capnp.Struct, depth int) {
	sz := s.Size()
	for k := 0; k < int(sz.DataSize); k++ {
		s.SetUint8(capnp.DataOffset(k), ^s.Uint8(capnp.DataOffset(k)))
	}
	for i := 0; i < int(sz.PointerCount); i++ {
		if q, err := s.Ptr(uint16(i)); err == nil {
			scribble(q, depth+1)
		}
	}
}

func addSharedCaps(m *capnp.Message) {
	for _, c := range sharedClients() {
		m.AddCap(c.AddRef())
	}
}

func countCaps(v *Val) int {
	var all []*Val
	nodes(v, &all)
	n := 0
	for _, x := range all {
		if x.Kind == vCap {
			n++
		}
	}
	return n
}

// capsAgree walks a pointer and its copy in step; every capability pointer of the copy must denote what the source's
// denotes: no client where the source's table entry is null or missing, the same client otherwise.
func capsAgree(p, q capnp.Ptr, depth int) string {
	if depth > 40 {
		return ""
	}
	switch {
	case p.Interface().IsValid() || q.Interface().IsValid():
		if !p.Interface().IsValid() || !q.Interface().IsValid() {
			return "kind"
		}
		a, b := p.Interface().Client(), q.Interface().Client()
		if (a == nil) != (b == nil) {
			return "null-capability became " + clientID(q.Interface().Message(), uint32(q.Interface().Capability()))
		}
		if a != nil && !a.IsSame(b) {
			return "different client"
		}
	case p.Struct().IsValid():
		if !q.Struct().IsValid() {
			return "kind"
		}
		return structCapsAgree(p.Struct(), q.Struct(), depth)
	case p.List().IsValid():
		if !q.List().IsValid() || p.List().Len() != q.List().Len() {
			return "kind"
		}
		for i := 0; i < p.List().Len() && i < 64; i++ {
			if s := structCapsAgree(p.List().Struct(i), q.List().Struct(i), depth); s != "" {
				return s
			}
		}
	}
	return ""
}

func structCapsAgree(a, b capnp.Struct, depth int) string {
	for i := 0; i < int(a.Size().PointerCount) && i < int(b.Size().PointerCount); i++ {
		x, err1 := a.Ptr(uint16(i))
		y, err2 := b.Ptr(uint16(i))
		if err1 != nil || err2 != nil {
			continue
		}
		if s := capsAgree(x, y, depth+1); s != "" {
			return s
		}
	}
	return ""
}

// execAlloc: "build alloc <single-segment arena> <n1+n2+…>": a run of allocations (byte lists of the given lengths, object
// k filled with the byte k) in a fresh message; output: the bytes of the segment afterwards (Model.Alloc.allocFill after
// the root pointer's word).
func execAlloc(spec, sizes string) string {
	msg, seg, err := capnp.NewMessage(makeArena(spec))
	if err != nil {
		return "builderr"
	}
	for k, f := range strings.Split(sizes, "+") {
		n, err := strconv.Atoi(f)
		if err != nil || n < 0 || n > 1<<16 {
			return "bad-op"
		}
		v := make([]byte, n)
		for i := range v {
			v[i] = byte(k + 1)
		}
		l, err := capnp.NewData(seg, v)
		if err != nil {
			return "allocerr"
		}
		if l.Segment() != seg {
			return "!single-segment-arena-used-another-segment"
		}
	}
	if msg.NumSegments() != 1 {
		return "!segments-" + strconv.FormatInt(msg.NumSegments(), 10)
	}
	return lib.Hex(seg.Data())
}

// execCopyData: "build copydata <src hex|-> <dw> <n> <idx> <old hex>": `copyStruct`'s data path on real memory.
// The source is an element of a List(UInt8/16/32) (1, 2 or 4 bytes) or a struct of len(src)/8 words; the destination is
// element idx of a list of n elements of dw bytes each (a primitive list for dw 1, 2, 4; a composite list else) that
// holds <old>, with an 8-byte object (0xcc…) allocated right behind it.  Output: the list's bytes and the object's after
// the copy (Model.CopyStruct.copyInto).
//
// "build copygrow <src hex> <dw> <n> <idx> <old hex> <bloblen>" is the same with whole-word sources and destinations that
// also have one pointer: the source's points to a Data blob of bloblen bytes, whose deep copy makes the destination's
// single-segment arena grow (move) in the middle of copyStruct.  Output: the same bytes, then "|ok" iff the copied element's
// pointer reads back the blob.
func execCopyData(t []string) string {
	blob := -1
	if len(t) == 7 && t[0] == "copygrow" {
		blob, _ = strconv.Atoi(t[6])
		if blob < 0 {
			return "bad-op"
		}
		t = t[:6]
	}
	if len(t) != 6 {
		return "bad-op"
	}
	npc := uint16(0)
	if blob >= 0 {
		npc = 1
	}
	unhex := func(s string) ([]byte, bool) {
		if s == "-" {
			return nil, true
		}
		b, err := lib.UnHex(s)
		return b, err == nil
	}
	src, ok1 := unhex(t[1])
	old, ok2 := unhex(t[5])
	dw, _ := strconv.Atoi(t[2])
	n, _ := strconv.Atoi(t[3])
	idx, _ := strconv.Atoi(t[4])
	if !ok1 || !ok2 || n <= 0 || idx < 0 || idx >= n || len(old) != n*dw {
		return "bad-op"
	}
	prim := func(seg *capnp.Segment, w, n int) (capnp.List, error) {
		switch w {
		case 1:
			l, err := capnp.NewUInt8List(seg, int32(n))
			return l.List, err
		case 2:
			l, err := capnp.NewUInt16List(seg, int32(n))
			return l.List, err
		default:
			l, err := capnp.NewUInt32List(seg, int32(n))
			return l.List, err
		}
	}
	_, sseg, err := capnp.NewMessage(capnp.SingleSegment(nil))
	if err != nil {
		return "builderr"
	}
	var s capnp.Struct
	switch len(src) {
	case 1, 2, 4:
		l, err := prim(sseg, len(src), 1)
		if err != nil {
			return "builderr"
		}
		s = l.Struct(0)
	default:
		if len(src)%8 != 0 {
			return "bad-op"
		}
		s, err = capnp.NewStruct(sseg, capnp.ObjectSize{DataSize: capnp.Size(len(src)), PointerCount: npc})
		if err != nil {
			return "builderr"
		}
	}
	var blobBytes []byte
	if blob >= 0 {
		if len(src)%8 != 0 || dw%8 != 0 {
			return "bad-op"
		}
		blobBytes = make([]byte, blob)
		for k := range blobBytes {
			blobBytes[k] = byte(k*7 + 1)
		}
		if err := s.SetData(0, blobBytes); err != nil {
			return "builderr"
		}
	}
	for k, b := range src {
		s.SetUint8(capnp.DataOffset(k), b)
	}
	_, dseg, err := capnp.NewMessage(capnp.SingleSegment(nil))
	if err != nil {
		return "builderr"
	}
	var l capnp.List
	if dw == 1 || dw == 2 || dw == 4 {
		l, err = prim(dseg, dw, n)
	} else {
		if dw%8 != 0 {
			return "bad-op"
		}
		l, err = capnp.NewCompositeList(dseg, capnp.ObjectSize{DataSize: capnp.Size(dw), PointerCount: npc}, int32(n))
	}
	if err != nil {
		return "builderr"
	}
	behind, err := capnp.NewData(dseg, []byte{0xcc, 0xcc, 0xcc, 0xcc, 0xcc, 0xcc, 0xcc, 0xcc})
	if err != nil {
		return "builderr"
	}
	for k, b := range old {
		l.Struct(k/dw).SetUint8(capnp.DataOffset(k%dw), b)
	}
	if idx%2 == 0 {
		err = l.SetStruct(idx, s)
	} else {
		err = l.Struct(idx).CopyFrom(s)
	}
	if err != nil {
		return "copyerr"
	}
	out := make([]byte, 0, n*dw+8)
	for k := 0; k < n*dw; k++ {
		out = append(out, l.Struct(k/dw).Uint8(capnp.DataOffset(k%dw)))
	}
	for k := 0; k < 8; k++ {
		out = append(out, behind.At(k))
	}
	if blob >= 0 {
		p, err := l.Struct(idx).Ptr(0)
		if err != nil || !bytes.Equal(p.Data(), blobBytes) {
			return lib.Hex(out) + "|blob-differs"
		}
		return lib.Hex(out) + "|ok"
	}
	return lib.Hex(out)
}

// execCopy: "build copy <arena> <mode> <seed> <val> <dstarena> <how> <ds> <pc>"
func execCopy(t []string, mode int, seed uint64, v *Val) string {
	if len(t) < 9 {
		return "bad-op"
	}
	how, _ := strconv.Atoi(t[6])
	ds, _ := strconv.Atoi(t[7])
	pc, _ := strconv.Atoi(t[8])
	treeCapByClient = true
	defer func() { treeCapByClient = false }()
	src, err := buildMessage(t[1], mode, seed, v)
	if err != nil {
		return "builderr"
	}
	if how == 8 {
		// a source table with null entries and indices beyond it; the destination already holds eight live clients
		ntab := []int{0, 3, 6, 8}[ds%4]
		for i := 0; i < ntab; i++ {
			if (seed>>uint(i))&1 == 1 {
				src.AddCap(nil)
			} else {
				src.AddCap(sharedClients()[i].AddRef())
			}
		}
	} else {
		addSharedCaps(src)
	}
	srcRoot, err := src.Root()
	if err != nil {
		return "mismatch src-root"
	}
	srcBefore := liveTree(src)
	dst, dseg, err := capnp.NewMessage(makeArena(t[5]))
	if err != nil {
		return "builderr"
	}
	if how == 8 {
		addSharedCaps(dst)
		before := len(dst.CapTable)
		var dp capnp.Ptr
		switch pc % 3 {
		case 0:
			if err := dst.SetRoot(srcRoot); err != nil {
				return "copyerr"
			}
			dp, _ = dst.Root()
		case 1:
			st, err := capnp.NewRootStruct(dseg, capnp.ObjectSize{PointerCount: 2})
			if err != nil {
				return "builderr"
			}
			if err := st.SetPtr(1, srcRoot); err != nil {
				return "copyerr"
			}
			dp, _ = st.Ptr(1)
		default:
			if v.Kind != vStruct {
				return "ok"
			}
			st, err := capnp.NewRootStruct(dseg, srcRoot.Struct().Size())
			if err != nil {
				return "builderr"
			}
			if err := st.CopyFrom(srcRoot.Struct()); err != nil {
				return "copyerr"
			}
			dp = st.ToPtr()
		}
		if n := countCaps(v); len(dst.CapTable)-before != n {
			return "mismatch captable " + strconv.Itoa(len(dst.CapTable)-before) + " want " + strconv.Itoa(n)
		}
		if s := capsAgree(srcRoot, dp, 0); s != "" {
			return "mismatch caps " + s
		}
		// entries the destination receives later do not show through either
		dst.AddCap(sharedClients()[0].AddRef())
		if s := capsAgree(srcRoot, dp, 0); s != "" {
			return "mismatch caps-later " + s
		}
		return "ok"
	}
	var want string
	var sb strings.Builder
	render := func(w *Val) string { sb.Reset(); renderVal(&sb, w); return sb.String() }
	capsBefore := len(dst.CapTable)
	switch how {
	case 0: // SetRoot
		if err := dst.SetRoot(srcRoot); err != nil {
			return "copyerr"
		}
		want = render(v)
	case 1: // struct field
		st, err := capnp.NewRootStruct(dseg, capnp.ObjectSize{PointerCount: 2})
		if err != nil {
			return "builderr"
		}
		if err := st.SetPtr(1, srcRoot); err != nil {
			return "copyerr"
		}
		want = render(&Val{Kind: vStruct, Ptrs: []*Val{{Kind: vNull}, v}})
	case 2: // pointer list element
		pl, err := capnp.NewPointerList(dseg, 2)
		if err != nil {
			return "builderr"
		}
		if err := dst.SetRoot(pl.ToPtr()); err != nil {
			return "builderr"
		}
		if err := pl.Set(1, srcRoot); err != nil {
			return "copyerr"
		}
		want = render(&Val{Kind: vList, EK: 6, N: 2, Elems: []*Val{{Kind: vNull}, v}})
	case 3, 4: // List.SetStruct / Struct.CopyFrom into a struct of another size holding old content
		if v.Kind != vStruct {
			return "ok"
		}
		var target capnp.Struct
		if how == 3 {
			cl, err := capnp.NewCompositeList(dseg, capnp.ObjectSize{DataSize: capnp.Size(8 * ds), PointerCount: uint16(pc)}, 2)
			if err != nil {
				return "builderr"
			}
			if err := dst.SetRoot(cl.ToPtr()); err != nil {
				return "builderr"
			}
			target = cl.Struct(1)
		} else {
			st, err := capnp.NewRootStruct(dseg, capnp.ObjectSize{DataSize: capnp.Size(8 * ds), PointerCount: uint16(pc)})
			if err != nil {
				return "builderr"
			}
			target = st
		}
		// old content that the copy must overwrite or clear
		for k := 0; k < 8*ds; k++ {
			target.SetUint8(capnp.DataOffset(k), 0xbb)
		}
		for i := 0; i < pc; i++ {
			old, _ := capnp.NewStruct(dseg, capnp.ObjectSize{DataSize: 8})
			old.SetUint64(0, 0x0123456789abcdef)
			target.SetPtr(uint16(i), old.ToPtr())
		}
		if how == 3 {
			r, _ := dst.Root()
			if err := r.List().SetStruct(1, srcRoot.Struct()); err != nil {
				return "copyerr"
			}
			e0 := &Val{Kind: vStruct, Data: make([]byte, 8*ds), InList: true}
			for i := 0; i < pc; i++ {
				e0.Ptrs = append(e0.Ptrs, &Val{Kind: vNull})
			}
			want = render(&Val{Kind: vList, EK: 7, N: 2, DS: ds, PC: pc, Elems: []*Val{e0, adjust(v, ds, pc)}})
		} else {
			if err := target.CopyFrom(srcRoot.Struct()); err != nil {
				return "copyerr"
			}
			want = render(adjust(v, ds, pc))
		}
	case 6: // an element of a primitive list viewed as a struct (sub-word data section) copied over old content
		if v.Kind != vList || v.EK < 2 || v.EK > 5 || v.N == 0 {
			return "ok"
		}
		w := elemBytes[v.EK]
		st, err := capnp.NewRootStruct(dseg, capnp.ObjectSize{DataSize: capnp.Size(8 * (ds + 1)), PointerCount: uint16(pc)})
		if err != nil {
			return "builderr"
		}
		for k := 0; k < 8*(ds+1); k++ {
			st.SetUint8(capnp.DataOffset(k), 0xbb)
		}
		for i := 0; i < pc; i++ {
			old, _ := capnp.NewStruct(dseg, capnp.ObjectSize{DataSize: 8})
			old.SetUint64(0, 0x0123456789abcdef)
			st.SetPtr(uint16(i), old.ToPtr())
		}
		idx := int(seed) % v.N
		if err := st.CopyFrom(srcRoot.List().Struct(idx)); err != nil {
			return "copyerr"
		}
		e := &Val{Kind: vStruct, Data: make([]byte, 8*(ds+1))}
		copy(e.Data, v.Prim[idx*w:(idx+1)*w])
		for i := 0; i < pc; i++ {
			e.Ptrs = append(e.Ptrs, &Val{Kind: vNull})
		}
		want = render(e)
		if got := liveTree(dst); got != want {
			return "mismatch elem-copy " + got
		}
		return "ok"
	case 7: // a struct copied INTO an element of a primitive list (sub-word data section): truncated to the element, neighbours and the object behind the list untouched
		if v.Kind != vStruct {
			return "ok"
		}
		ek := 2 + ds%3
		w := elemBytes[ek]
		const n = 5
		st, err := capnp.NewRootStruct(dseg, capnp.ObjectSize{PointerCount: 2})
		if err != nil {
			return "builderr"
		}
		var l capnp.List
		switch ek {
		case 2:
			tl, e := capnp.NewUInt8List(dseg, n)
			l, err = tl.List, e
		case 3:
			tl, e := capnp.NewUInt16List(dseg, n)
			l, err = tl.List, e
		default:
			tl, e := capnp.NewUInt32List(dseg, n)
			l, err = tl.List, e
		}
		if err != nil {
			return "builderr"
		}
		for i := 0; i < n; i++ {
			for k := 0; k < w; k++ {
				l.Struct(i).SetUint8(capnp.DataOffset(k), 0xbb)
			}
		}
		behind, _ := capnp.NewData(dseg, []byte{0xcc, 0xcc, 0xcc, 0xcc, 0xcc, 0xcc, 0xcc, 0xcc})
		st.SetPtr(0, l.ToPtr())
		st.SetPtr(1, behind.ToPtr())
		idx := int(seed) % n
		if pc%2 == 0 {
			err = l.SetStruct(idx, srcRoot.Struct())
		} else {
			err = l.Struct(idx).CopyFrom(srcRoot.Struct())
		}
		if err != nil {
			return "copyerr"
		}
		prim := make([]byte, n*w)
		for k := range prim {
			prim[k] = 0xbb
		}
		el := make([]byte, w)
		copy(el, v.Data)
		copy(prim[idx*w:], el)
		want = render(&Val{Kind: vStruct, Ptrs: []*Val{{Kind: vList, EK: ek, N: n, Prim: prim}, {Kind: vList, EK: 2, N: 8, Prim: []byte{0xcc, 0xcc, 0xcc, 0xcc, 0xcc, 0xcc, 0xcc, 0xcc}}}})
		if got := liveTree(dst); got != want {
			return "mismatch into-elem " + got
		}
		return "ok"
	case 5: // same message: CopyFrom inside the source message, then independence
		if v.Kind != vStruct {
			return "ok"
		}
		st2, err := capnp.NewStruct(srcRoot.Segment(), srcRoot.Struct().Size())
		if err != nil {
			return "builderr"
		}
		if err := st2.CopyFrom(srcRoot.Struct()); err != nil {
			return "copyerr"
		}
		var b1 strings.Builder
		treeStruct(&b1, st2)
		if b1.String() != srcBefore {
			return "mismatch samemsg-copy " + b1.String()
		}
		scribble(srcRoot, 0)
		var b2 strings.Builder
		treeStruct(&b2, st2)
		if b2.String() != srcBefore {
			return "mismatch samemsg-aliased " + b2.String()
		}
		return "ok"
	}
	got := liveTree(dst)
	if got != want {
		return "mismatch copy " + got
	}
	if how <= 2 {
		if n := countCaps(v); len(dst.CapTable)-capsBefore != n {
			return "mismatch captable " + strconv.Itoa(len(dst.CapTable)-capsBefore) + " want " + strconv.Itoa(n)
		}
	}
	// independence: scribbling over the source leaves the copy alone, and vice versa
	scribble(srcRoot, 0)
	if got := liveTree(dst); got != want {
		return "mismatch src-shows-through " + got
	}
	srcAfter := liveTree(src)
	if r, err := dst.Root(); err == nil {
		scribble(r, 0)
	}
	if got := liveTree(src); got != srcAfter {
		return "mismatch dst-shows-through " + got
	}
	// the copy survives serialisation
	return "ok"
}

func genBuild(rec *lib.Rec, r *lib.Rng, thorough bool, which string) {
	if Shard == 0 && (which == "C04" || which == "C05") {
		// struct sizes at the edge of what a pointer can encode (0xffff words, 0xffff pointers)
		for _, dsz := range []int{1, 7, 8, 9, 524272, 524273, 524279, 524280, 524281, 524284, 524287, 524288, 524289, 1 << 20} {
			for _, pcs := range []int{0, 1, 65535} {
				rec.Op("S", "build bigstruct single "+strconv.Itoa(pcs)+" 0 N "+strconv.Itoa(dsz), true)
			}
		}
	}
	if Shard == 0 && which == "C04" {
		// a message whose last object is a text of 0..16 characters (the last packed word then has every tag shape)
		for l := 0; l <= 16; l++ {
			tx := make([]byte, l+1)
			for k := 0; k < l; k++ {
				tx[k] = byte('a' + k)
			}
			v := &Val{Kind: vStruct, Data: []byte{1, 0, 0, 0, 0, 0, 0, 0}, Ptrs: []*Val{{Kind: vList, EK: 2, N: l + 1, Prim: tx}}}
			for s := 0; s < 4; s++ {
				rec.Op("S", "build make single 0 "+strconv.Itoa(s)+" "+valStr(v), true)
			}
		}
	}
	n := 1500
	if thorough {
		n = 100000
	}
	n /= Shards
	for i := 0; i < n; i++ {
		b := 3 + r.Intn(30)
		v := GenVal(r, 5, &b)
		if r.Chance(2, 3) {
			v = genStruct(r, 5, &b, r.Intn(4), r.Intn(4))
		}
		var all []*Val
		nodes(v, &all)
		for _, nd := range all {
			nd.Cap %= 8
		}
		arena := arenaSpecs[r.Intn(len(arenaSpecs))]
		mode := strconv.Itoa(r.Intn(4))
		seed := strconv.FormatUint(r.U64()%1000000, 10)
		vs := valStr(v)
		switch which {
		case "C04":
			rec.Op("S", "build make "+arena+" "+mode+" "+seed+" "+vs, true)
			rec.Count("arena " + strings.Split(arena, ":")[0])
		case "C05":
			res := execLine("build bytes " + arena + " " + mode + " " + seed + " " + vs)
			if strings.HasPrefix(res, "ok ") {
				segs := res[3:]
				// the independent (Lean) decoder must reconstruct exactly the written tree from the produced bytes,
				// and the bytes must be a valid message (every pointer resolves, objects disjoint, padding zero)
				rec.Op("S", "build spec "+shadowTree(v)+" "+segs, true)
				rec.Op("S", "build valid "+segs, true)
			}
			if i%3 == 0 {
				// allocation against Model.Alloc: object sizes of every residue mod 8, clean and recycled single-segment buffers
				var szs []string
				for k := 0; k < 1+r.Intn(6); k++ {
					szs = append(szs, strconv.Itoa(r.Pick(0, 1, 7, 8, 9, r.Intn(40), r.Intn(40), r.Intn(300))))
				}
				rec.Op("M", "build alloc "+r.PickS("single", "single:8", "single:64", "single:4096", "dsingle:64", "dsingle:4096", "single:44", "single:61", "single:9", "dsingle:50")+" "+strings.Join(szs, "+"), true)
				rec.Count("alloc")
			}
			if i%4 == 0 {
				// … also after the message was decoded again and more objects were allocated in each of its segments
				res := execLine("build rmwbytes " + arena + " " + mode + " " + seed + " " + vs)
				if strings.HasPrefix(res, "ok ") {
					rec.Op("S", "build spec "+shadowTree(v)+" "+res[3:], true)
					rec.Op("S", "build valid "+res[3:], true)
				}
			}
			rec.Count("arena " + strings.Split(arena, ":")[0])
		case "C16":
			dst := arenaSpecs[r.Intn(len(arenaSpecs))]
			how := r.Intn(9)
			if how == 8 && countCaps(v) == 0 { // capabilities whose source entry is null or missing: make sure there are some
				for _, nd := range all {
					if nd.Kind == vNull && r.Chance(1, 2) {
						nd.Kind, nd.Cap = vCap, uint32(r.Intn(8))
					}
				}
				if v.Kind == vStruct && countCaps(v) == 0 {
					v.Ptrs = append(v.Ptrs, &Val{Kind: vCap, Cap: uint32(r.Intn(8))})
				}
				vs = valStr(v)
			}
			if how == 6 { // needs a primitive list as the source root
				b2 := 1
				v = genList(r, 1, &b2)
				for v.EK < 2 || v.EK > 5 || v.N == 0 {
					v = genList(r, 1, &b2)
				}
				vs = valStr(v)
			}
			rec.Op("S", "build copy "+arena+" "+mode+" "+seed+" "+vs+" "+dst+" "+strconv.Itoa(how)+" "+strconv.Itoa(r.Intn(4))+" "+strconv.Itoa(r.Intn(4)), true)
			rec.Count("how " + strconv.Itoa(how))
			if i%5 == 0 {
				// the data path of copyStruct against Model.CopyStruct: sub-word and whole-word sources and destinations
				sw := r.Pick(0, 1, 2, 4, 8, 16, 24)
				dwd := r.Pick(1, 2, 4, 8, 16)
				nn := 1 + r.Intn(5)
				sb := make([]byte, sw)
				for k := range sb {
					sb[k] = byte(r.Pick(0, 1+r.Intn(255), 1+r.Intn(255)))
				}
				ob := make([]byte, nn*dwd)
				for k := range ob {
					ob[k] = byte(0x80 | r.Intn(128))
				}
				hx := func(b []byte) string {
					if len(b) == 0 {
						return "-"
					}
					return lib.Hex(b)
				}
				rec.Op("M", "build copydata "+hx(sb)+" "+strconv.Itoa(dwd)+" "+strconv.Itoa(nn)+" "+strconv.Itoa(r.Intn(nn))+" "+hx(ob), true)
				rec.Count("copydata")
				if i%10 == 0 {
					// the same with a pointer whose deep copy moves the destination's arena while copyStruct is at work
					sw8 := r.Pick(0, 8, 16)
					dw8 := r.Pick(8, 16, 24, 32)
					sb8 := make([]byte, sw8)
					for k := range sb8 {
						sb8[k] = byte(1 + r.Intn(255))
					}
					ob8 := make([]byte, nn*dw8)
					for k := range ob8 {
						ob8[k] = byte(0x80 | r.Intn(128))
					}
					rec.Op("M", "build copygrow "+hx(sb8)+" "+strconv.Itoa(dw8)+" "+strconv.Itoa(nn)+" "+strconv.Itoa(r.Intn(nn))+" "+hx(ob8)+" "+strconv.Itoa(r.Pick(0, 8, 100, 5000, 70000)), true)
					rec.Count("copygrow")
				}
			}
		}
	}
}
