package main

import (
	"encoding/binary"
	"strconv"
	"strings"

	"verifharness/lib"
)

// clone deep-copies a value tree.
func clone(v *Val) *Val {
	if v == nil {
		return nil
	}
	c := *v
	c.Data = append([]byte(nil), v.Data...)
	c.Prim = append([]byte(nil), v.Prim...)
	c.Ptrs = nil
	for _, p := range v.Ptrs {
		c.Ptrs = append(c.Ptrs, clone(p))
	}
	c.Elems = nil
	for _, p := range v.Elems {
		c.Elems = append(c.Elems, clone(p))
	}
	return &c
}

// nodes lists every node of the tree.
func nodes(v *Val, out *[]*Val) {
	if v == nil {
		return
	}
	*out = append(*out, v)
	for _, p := range v.Ptrs {
		nodes(p, out)
	}
	for _, p := range v.Elems {
		nodes(p, out)
	}
}

// relayout: an equal value in another "schema version": structs get extra zero
// words / null pointers (or lose trailing zero ones), primitive and pointer lists
// are upgraded to struct lists.  The result must compare Equal to the original.
func relayout(r *lib.Rng, v *Val) *Val {
	c := clone(v)
	var ns []*Val
	nodes(c, &ns)
	for _, n := range ns {
		switch {
		case n.Kind == vStruct && !n.InList && r.Chance(1, 2):
			padStruct(r, n)
		case n.Kind == vList && n.EK == 7 && r.Chance(1, 2):
			dz, pz := r.Intn(2), r.Intn(2)
			n.DS += dz
			n.PC += pz
			for _, e := range n.Elems {
				e.Data = append(e.Data, make([]byte, 8*dz)...)
				for k := 0; k < pz; k++ {
					e.Ptrs = append(e.Ptrs, &Val{Kind: vNull})
				}
			}
		case n.Kind == vList && n.EK >= 2 && n.EK <= 5 && r.Chance(1, 3): // primitive -> struct list
			w := elemBytes[n.EK]
			n.DS, n.PC = 1+r.Intn(2), r.Intn(2)
			for i := 0; i < n.N; i++ {
				e := &Val{Kind: vStruct, InList: true, Data: make([]byte, 8*n.DS)}
				copy(e.Data, n.Prim[i*w:(i+1)*w])
				for k := 0; k < n.PC; k++ {
					e.Ptrs = append(e.Ptrs, &Val{Kind: vNull})
				}
				n.Elems = append(n.Elems, e)
			}
			n.EK, n.Prim = 7, nil
		case n.Kind == vList && n.EK == 6 && r.Chance(1, 3): // pointer list -> struct list
			n.DS, n.PC = r.Intn(2), 1+r.Intn(2)
			var es []*Val
			for _, p := range n.Elems {
				e := &Val{Kind: vStruct, InList: true, Data: make([]byte, 8*n.DS), Ptrs: []*Val{p}}
				for k := 1; k < n.PC; k++ {
					e.Ptrs = append(e.Ptrs, &Val{Kind: vNull})
				}
				es = append(es, e)
			}
			n.EK, n.Elems = 7, es
		case n.Kind == vList && n.EK == 0 && r.Chance(1, 4): // void list -> list of empty structs with room
			n.DS, n.PC = r.Intn(2), r.Intn(2)
			for i := 0; i < n.N; i++ {
				e := &Val{Kind: vStruct, InList: true, Data: make([]byte, 8*n.DS)}
				for k := 0; k < n.PC; k++ {
					e.Ptrs = append(e.Ptrs, &Val{Kind: vNull})
				}
				n.Elems = append(n.Elems, e)
			}
			n.EK = 7
		}
	}
	return c
}

func padStruct(r *lib.Rng, n *Val) {
	if r.Bool() {
		n.Data = append(n.Data, make([]byte, 8*r.Intn(3))...)
	} else {
		for len(n.Data) >= 8 && allZero(n.Data[len(n.Data)-8:]) && r.Bool() {
			n.Data = n.Data[:len(n.Data)-8]
		}
	}
	if r.Bool() {
		for k := r.Intn(3); k > 0; k-- {
			n.Ptrs = append(n.Ptrs, &Val{Kind: vNull})
		}
	} else {
		for len(n.Ptrs) > 0 && n.Ptrs[len(n.Ptrs)-1].Kind == vNull && r.Bool() {
			n.Ptrs = n.Ptrs[:len(n.Ptrs)-1]
		}
	}
}

func allZero(b []byte) bool {
	for _, x := range b {
		if x != 0 {
			return false
		}
	}
	return true
}

// perturb makes one minimal change that (usually) changes the value.
func perturb(r *lib.Rng, v *Val) (*Val, string) {
	c := clone(v)
	var ns []*Val
	nodes(c, &ns)
	for try := 0; try < 20; try++ {
		n := ns[r.Intn(len(ns))]
		switch n.Kind {
		case vStruct:
			if len(n.Data) > 0 && r.Bool() {
				n.Data[r.Intn(len(n.Data))] ^= 1 << uint(r.Intn(8))
				return c, "struct-data-bit"
			}
			if len(n.Ptrs) > 0 {
				i := r.Intn(len(n.Ptrs))
				if n.Ptrs[i].Kind == vNull {
					n.Ptrs[i] = &Val{Kind: vStruct} // null -> empty struct
					return c, "null-to-empty-struct"
				}
				n.Ptrs[i] = &Val{Kind: vNull}
				return c, "ptr-to-null"
			}
			if n.InList {
				continue
			}
			n.Data = append(n.Data, 0, 0, 0, 0, 0, 0, 0, byte(1+r.Intn(255))) // non-zero trailing word
			return c, "nonzero-tail"
		case vList:
			switch {
			case n.EK == 1 && n.N > 0:
				i := r.Intn(n.N)
				n.Prim[i/8] ^= 1 << uint(i%8)
				return c, "bit-list-bit"
			case n.EK == 1:
				n.EK = 0
				return c, "bit-to-void"
			case n.EK == 0:
				n.EK = 1
				n.Prim = make([]byte, (n.N+7)/8)
				return c, "void-to-bit"
			case n.EK >= 2 && n.EK <= 5 && n.N > 0:
				n.Prim[r.Intn(len(n.Prim))] ^= 1 << uint(r.Intn(8))
				return c, "prim-list-bit"
			case n.EK == 6 && n.N > 0:
				i := r.Intn(n.N)
				if n.Elems[i].Kind == vNull {
					n.Elems[i] = &Val{Kind: vCap, Cap: 5}
				} else {
					n.Elems[i] = &Val{Kind: vNull}
				}
				return c, "ptr-list-elem"
			case n.EK == 7 && n.N > 0 && n.DS > 0:
				e := n.Elems[r.Intn(n.N)]
				e.Data[r.Intn(len(e.Data))] ^= 1 << uint(r.Intn(8))
				return c, "composite-elem-bit"
			}
		case vCap:
			n.Cap ^= 1
			return c, "cap-index"
		case vNull:
			if try > 10 {
				n.Kind = vStruct
				return c, "null-to-empty-struct"
			}
		}
	}
	return c, "none"
}

func encodeRandom(r *lib.Rng, v *Val) [][]byte {
	return Encode(r, v, 1+r.Intn(3), r.Intn(8), r.Intn(8), r.Bool())
}

func genC17(rec *lib.Rec, r *lib.Rng, thorough bool) {
	n := 2500
	if thorough {
		n = 150000
	}
	n /= Shards
	sh := func() string { return " " + strconv.Itoa(r.Pick(0, 0, 0, 1, 3, 7)) }
	for i := 0; i < n; i++ {
		b := 3 + r.Intn(25)
		v := GenVal(r, 5, &b)
		var all []*Val
		nodes(v, &all)
		for _, nd := range all {
			nd.Cap %= 8 // capability tables of the harness hold eight clients
		}
		a := segsStr(encodeRandom(r, v))
		// reflexive under a different layout
		res := rec.Op("S", "read equal "+a+" "+segsStr(encodeRandom(r, v))+sh(), true)
		rec.Count("same-value " + res)
		// equal under version padding / list upgrade; and symmetric
		w := relayout(r, v)
		wb := segsStr(encodeRandom(r, w))
		res = rec.Op("S", "read equal "+a+" "+wb+sh(), true)
		rec.Count("relayout " + res)
		rec.Op("S", "read equal "+wb+" "+a+sh(), true)
		// minimal perturbation; both argument orders
		p, kind := perturb(r, v)
		pb := segsStr(encodeRandom(r, p))
		res = rec.Op("S", "read equal "+a+" "+pb+sh(), true)
		rec.Count("perturb " + kind + " " + res)
		rec.Op("S", "read equal "+pb+" "+a+sh(), true)
		// perturbed vs relayout
		rec.Op("S", "read equal "+pb+" "+wb+sh(), true)
		// a relayout that is then perturbed (e.g. a non-zero byte beside the value in an upgraded list's element)
		w2, kind2 := perturb(r, w)
		res = rec.Op("S", "read equal "+a+" "+segsStr(encodeRandom(r, w2))+sh(), true)
		rec.Count("perturbed-relayout " + kind2 + " " + res)
		// two pointers of one message
		pair := func(x, y *Val) *Val { return &Val{Kind: vStruct, Data: nil, Ptrs: []*Val{x, y}} }
		switch i % 3 {
		case 0:
			rec.Op("S", "read equalin "+segsStr(encodeRandom(r, pair(v, clone(w)))), true)
		case 1:
			rec.Op("S", "read equalin "+segsStr(encodeRandom(r, pair(v, p))), true)
		default:
			if s := aliasedViews(r, v); s != "" {
				rec.Op("S", "read equalin "+s, true)
				rec.Count("aliased-views")
			}
		}
		if i%4 == 0 {
			// capability identity inside one message: nil table entries, indices outside the table (symmetry only)
			c1, c2 := clone(v), clone(v)
			for _, t := range []*Val{c1, c2} {
				var ns []*Val
				nodes(t, &ns)
				for _, nd := range ns {
					if nd.Kind == vCap || (nd.Kind == vNull && r.Chance(1, 6)) {
						nd.Kind, nd.Cap = vCap, uint32(r.Intn(11))
					}
				}
			}
			rec.Op("S", "read equalsym "+segsStr(encodeRandom(r, pair(c1, c2)))+" "+strconv.Itoa(r.Pick(0, 4, 8, 8))+" "+strconv.Itoa(r.Intn(256)), true)
		}
		if i%4 == 1 {
			// capability identity inside one message, full verdict: against the table of eight distinct live clients two
			// capability pointers are equal exactly when their indices are, also when an index lies outside the table
			// and wherever in the message (same segment or not) the two pointers sit
			c1, c2 := clone(v), clone(v)
			var n1, n2 []*Val
			nodes(c1, &n1)
			nodes(c2, &n2)
			for k := range n1 {
				if n1[k].Kind == vCap || (n1[k].Kind == vNull && r.Chance(1, 4)) {
					idx := uint32(r.Intn(11))
					n1[k].Kind, n1[k].Cap = vCap, idx
					n2[k].Kind, n2[k].Cap = vCap, idx
					if r.Chance(1, 3) {
						n2[k].Cap = uint32(r.Pick(8, 9, 10, r.Intn(11)))
					}
				}
			}
			res := rec.Op("S", "read equalin "+segsStr(Encode(r, pair(c1, c2), 2+r.Intn(3), r.Intn(8), r.Intn(8), r.Bool())), true)
			rec.Count("in-message-caps " + res)
			{
				// the decision itself against Model.EqualCap: tables of 0..8 entries, null entries, clients named twice
				bx := func(c int) *Val { return &Val{Kind: vStruct, Ptrs: []*Val{{Kind: vCap, Cap: uint32(c)}}} }
				ntab := r.Pick(0, 1, 4, 8, r.Intn(9))
				rec.Op("M", "read equalcap "+segsStr(Encode(r, pair(bx(r.Intn(10)), bx(r.Intn(10))), 1+r.Intn(3), r.Intn(8), 0, r.Bool()))+" "+
					strconv.Itoa(ntab)+" "+strconv.Itoa(r.Pick(0, 0, r.Intn(256)))+" "+strconv.Itoa(r.Pick(8, 8, 1, 2, 3)), true)
			}
			box := func(c int) *Val { return &Val{Kind: vStruct, Ptrs: []*Val{{Kind: vCap, Cap: uint32(c)}}} }
			rec.Op("S", "read equalin "+segsStr(Encode(r, pair(box(r.Intn(11)), box(8+r.Intn(3))), 3, 0, 0, r.Bool())), true)
		}
		// a value equals its deep copy: into a fresh message, over old content of a larger struct or list element, and
		// element by element out of a (primitive, pointer or struct) list
		if i%2 == 0 {
			mode := r.Intn(4)
			x := v
			if mode == 3 && r.Chance(2, 3) {
				b2 := 1 + r.Intn(4)
				x = genList(r, 2, &b2)
				var xs []*Val
				nodes(x, &xs)
				for _, nd := range xs {
					nd.Cap %= 8
				}
			}
			res := rec.Op("S", "read equalcopy "+segsStr(encodeRandom(r, x))+" "+strconv.Itoa(mode), true)
			rec.Count("copy mode " + strconv.Itoa(mode) + " " + strings.Fields(res)[0])
		}
		// unrelated
		if i%5 == 0 {
			b2 := 3 + r.Intn(10)
			u := GenVal(r, 4, &b2)
			var us []*Val
			nodes(u, &us)
			for _, nd := range us {
				nd.Cap %= 8
			}
			rec.Op("S", "read equal "+a+" "+segsStr(encodeRandom(r, u))+sh(), true)
		}
	}
	_ = strconv.Itoa
}

// aliasedViews: a single-segment message whose root has two pointer fields; field 0 points at a struct, field 1 is a
// second struct pointer to the same address with a smaller (possibly empty) shape.
func aliasedViews(r *lib.Rng, v *Val) string {
	if v.Kind != vStruct || len(v.Data) < 8 {
		b := 4
		v = genStruct(r, 2, &b, 1+r.Intn(2), r.Intn(2))
		var all []*Val
		nodes(v, &all)
		for _, nd := range all {
			nd.Cap %= 8
		}
	}
	root := &Val{Kind: vStruct, Ptrs: []*Val{v, {Kind: vNull}}}
	segs := Encode(r, root, 1, 0, 0, false)
	if len(segs) != 1 || len(segs[0]) < 16 {
		return ""
	}
	s := segs[0]
	word := func(i int) uint64 { return binary.LittleEndian.Uint64(s[8*i:]) }
	w0 := word(0)
	if w0&3 != 0 {
		return ""
	}
	start := 1 + int(int32(uint32(w0))>>2)
	ds, pc := int(w0>>32&0xffff), int(w0>>48&0xffff)
	if pc != 2 || start < 0 || 8*(start+ds+2) > len(s) {
		return ""
	}
	p0 := word(start + ds)
	if p0 == 0 || p0&3 != 0 {
		return ""
	}
	off := int(int32(uint32(p0)) >> 2)
	tds, tpc := int(p0>>32&0xffff), int(p0>>48&0xffff)
	nds, npc := tds, tpc
	switch r.Intn(4) {
	case 0:
		nds, npc = 0, 0
	case 1:
		if nds > 0 {
			nds--
		}
	case 2:
		npc = 0
	}
	if npc != tpc && nds != tds {
		// (pointer slots start after the data words: a shorter data section moves them)
		npc = 0
	}
	if nds != tds {
		npc = 0
	}
	p1 := uint64(uint32(int32(off-1)<<2)) | uint64(nds)<<32 | uint64(npc)<<48
	binary.LittleEndian.PutUint64(s[8*(start+ds+1):], p1)
	return segsStr(segs)
}

// stripCaps replaces capabilities by nulls (Canonicalize rejects them) except with small probability.
func stripCaps(r *lib.Rng, v *Val) {
	var all []*Val
	nodes(v, &all)
	keep := r.Chance(1, 12)
	for _, n := range all {
		if n.Kind == vCap && !keep {
			n.Kind = vNull
		}
	}
}

// dirtyBitPadding sets the unused bits of bit lists' last bytes (they are not part of the value).
func dirtyBitPadding(r *lib.Rng, v *Val) *Val {
	c := clone(v)
	var all []*Val
	nodes(c, &all)
	for _, n := range all {
		if n.Kind == vList && n.EK == 1 && n.N%8 != 0 && len(n.Prim) > 0 {
			n.Prim[len(n.Prim)-1] |= byte(0xff) << uint(n.N%8)
		}
	}
	return c
}

func genC18(rec *lib.Rec, r *lib.Rng, thorough bool) {
	n := 2500
	if thorough {
		n = 150000
	}
	n /= Shards
	if Shard == 0 {
		// structs and list elements with more than 8192 data words (word indices and byte offsets past 16 bits), a single
		// non-zero word at various places: the canonical size is decided by the last non-zero word
		for _, k := range []int{0, 1, 8190, 8191, 8192, 8193, 8999} {
			v := &Val{Kind: vStruct, Data: make([]byte, 8*9000)}
			v.Data[8*k+r.Intn(8)] = byte(1 + r.Intn(255))
			rec.Op("S", "read canon "+segsStr(Encode(r, v, 1, 0, 0, false)), true)
			rec.Count("big-struct")
		}
		for _, k := range []int{0, 8192, 8199} {
			l := &Val{Kind: vList, EK: 7, N: 2, DS: 8200, PC: 0}
			for e := 0; e < 2; e++ {
				l.Elems = append(l.Elems, &Val{Kind: vStruct, InList: true, Data: make([]byte, 8*8200)})
			}
			l.Elems[1].Data[8*k] = 0x5a
			v := &Val{Kind: vStruct, Data: []byte{1, 0, 0, 0, 0, 0, 0, 0}, Ptrs: []*Val{l}}
			rec.Op("S", "read canon "+segsStr(Encode(r, v, 1, 0, 0, false)), true)
			rec.Count("big-element")
		}
		// structs and list elements with pointer sections around 2^15 and up to the 16-bit maximum, one non-null
		// pointer near the front (everything behind it is truncated): the canonical pointer count is decided by a
		// backwards scan over the whole section
		widePtrs := func(n, at int, inList bool) *Val {
			s := &Val{Kind: vStruct, InList: inList, Data: []byte{byte(1 + r.Intn(255)), 0, 0, 0, 0, 0, 0, 0}, Ptrs: make([]*Val, n)}
			for i := range s.Ptrs {
				s.Ptrs[i] = &Val{Kind: vNull}
			}
			s.Ptrs[at] = &Val{Kind: vStruct, Data: []byte{byte(1 + r.Intn(255)), 0, 0, 0, 0, 0, 0, 0}}
			return s
		}
		for _, n := range []int{32767, 32768, 32769, 40000, 65535} {
			rec.Op("S", "read canon "+segsStr(Encode(r, widePtrs(n, r.Intn(2), false), 1, 0, 0, false)), true)
			rec.Count("wide-ptr-struct")
		}
		for _, n := range []int{32768, 32769, 50000} {
			l := &Val{Kind: vList, EK: 7, N: 2, DS: 1, PC: n}
			l.Elems = []*Val{widePtrs(n, 0, true), widePtrs(n, 1, true)}
			v := &Val{Kind: vStruct, Data: []byte{1, 0, 0, 0, 0, 0, 0, 0}, Ptrs: []*Val{l}}
			rec.Op("S", "read canon "+segsStr(Encode(r, v, 1, 0, 0, false)), true)
			rec.Count("wide-ptr-element")
		}
	}
	for i := 0; i < n; i++ {
		b := 3 + r.Intn(30)
		v := genStruct(r, 5, &b, r.Intn(4), r.Intn(4))
		stripCaps(r, v)
		a := segsStr(encodeRandom(r, v))
		// S: Canonicalize == the spec's canonical bytes of the decoded tree (and idempotent)
		ca := rec.Op("S", "read canon "+a, true)
		// layout independence: other layout, other schema version, dirty bit-list padding
		cb := rec.Op("S", "read canon "+segsStr(encodeRandom(r, v)), true)
		cw := rec.Op("S", "read canon "+segsStr(encodeRandom(r, relayout(r, v))), true)
		cd := rec.Op("S", "read canon "+segsStr(encodeRandom(r, dirtyBitPadding(r, v))), true)
		if ca != cb || ca != cw || ca != cd {
			rec.Count("layout-dependent")
			rec.Op("S", "read canonsame "+a, true) // records the failing input; the model answers "same"
		}
		rec.Count("value")
	}
}
