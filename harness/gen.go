package main

import (
	"bufio"
	"os"
	"strconv"
	"strings"

	capnp "capnproto.org/go/capnp/v3"
	"capnproto.org/go/capnp/v3/verifx"
	"verifharness/lib"
)

// execGen evaluates one go2lean target on the implementation through the
// VerifCall hook: "gen <name> <a0,a1,...>".
func execGen(t []string) string {
	if len(t) != 2 {
		return "bad-op"
	}
	var args []int64
	if t[1] != "-" {
		for _, s := range strings.Split(t[1], ",") {
			v, err := strconv.ParseInt(s, 10, 64)
			if err != nil {
				return "bad-op"
			}
			args = append(args, v)
		}
	}
	for len(args) < 4 {
		args = append(args, 0)
	}
	if t[0] == "needsEscape" {
		if verifx.NeedsEscape(byte(args[0])) {
			return "ok 1"
		}
		return "ok 0"
	}
	res, ok := capnp.VerifCall(t[0], args)
	if !ok {
		return "unknown"
	}
	var sb strings.Builder
	sb.WriteString("ok ")
	for i, r := range res {
		if i > 0 {
			sb.WriteByte(',')
		}
		sb.WriteString(strconv.FormatInt(r, 10))
	}
	return sb.String()
}

var boundaryVals []int64

func init() {
	seen := map[int64]bool{}
	add := func(v int64) {
		if !seen[v] {
			seen[v] = true
			boundaryVals = append(boundaryVals, v)
		}
	}
	for v := int64(-9); v <= 17; v++ {
		add(v)
	}
	for _, k := range []uint{8, 15, 16, 19, 22, 29, 30, 31, 32, 33, 34, 35, 36, 47, 48, 49, 62, 63} {
		for d := int64(-2); d <= 2; d++ {
			add(int64(uint64(1)<<k) + d)
			add(-int64(uint64(1)<<k) + d)
		}
	}
	for _, v := range []int64{4294967288, 4294967287, 4294967289, 4294967295, 524280, 524287, 524288, 0x7ffffff8, 65535 * 8, 0xffff0} {
		add(v)
		add(v + 8)
		add(v - 8)
	}
}

func genArg(r *lib.Rng) int64 {
	switch r.Intn(6) {
	case 0, 1:
		return boundaryVals[r.Intn(len(boundaryVals))]
	case 2:
		return int64(r.Intn(64))
	case 3: // pointer-like word: random fields
		return int64(uint64(r.Intn(8)) | uint64(r.Intn(1<<16))<<2 | uint64(r.Pick(0, 1, 2, 5, 6, 7, 1<<29-1, 1<<28))<<3 |
			uint64(r.Intn(8))<<32 | uint64(r.Pick(0, 1, 2, 255, 1<<29-1, 1<<28, r.Intn(1<<29)))<<35)
	case 4:
		return int64(r.U64() >> uint(r.Intn(64)))
	default:
		return int64(r.U64())
	}
}

type genTarget struct {
	name  string
	arity int
}

func loadGenTargets() []genTarget {
	var out []genTarget
	f, err := os.Open(os.Getenv("VERIF_GEN_TARGETS"))
	if err != nil {
		return nil
	}
	defer f.Close()
	sc := bufio.NewScanner(f)
	for sc.Scan() {
		t := strings.Fields(sc.Text())
		if len(t) == 2 {
			n, _ := strconv.Atoi(t[1])
			out = append(out, genTarget{t[0], n})
		}
	}
	return out
}

// genTranslatorStream is the translator-validation stream: every generated
// definition against the Go function it was generated from.
func genTranslatorStream(rec *lib.Rec, r *lib.Rng, perFunc int, only map[string]bool) {
	for _, tg := range loadGenTargets() {
		if only != nil && !only[tg.name] {
			continue
		}
		for i := 0; i < perFunc/Shards+1; i++ {
			args := make([]string, tg.arity)
			nt := false
			for k := range args {
				v := genArg(r)
				if v != 0 {
					nt = true
				}
				args[k] = strconv.FormatInt(v, 10)
			}
			a := strings.Join(args, ",")
			if a == "" {
				a = "-"
			}
			rec.Op("M", "gen "+tg.name+" "+a, nt)
		}
	}
}
