package main

import (
	"bytes"
	"strconv"
	"strings"

	capnp "capnproto.org/go/capnp/v3"
	"capnproto.org/go/capnp/v3/encoding/text"
	"capnproto.org/go/capnp/v3/verifx"
	"verifharness/lib"
)

func buildForText(typeIdx int, seed uint64, vs string) (uint64, capnp.Struct, bool) {
	loadSchema()
	if typeIdx < 0 || typeIdx >= len(structIDs) {
		return 0, capnp.Struct{}, false
	}
	v, err := parseVal(vs)
	if err != nil {
		return 0, capnp.Struct{}, false
	}
	r := lib.NewRng(seed)
	segs := Encode(r, v, 1+r.Intn(3), r.Intn(8), r.Intn(8), r.Bool())
	for i := range segs {
		segs[i] = exact(segs[i])
	}
	msg := &capnp.Message{Arena: capnp.MultiSegment(segs), TraverseLimit: 1 << 40}
	root, err := msg.Root()
	if err != nil {
		return 0, capnp.Struct{}, false
	}
	return structIDs[typeIdx], root.Struct(), true
}

func execText(t []string) string {
	switch {
	case len(t) == 2 && t[0] == "quote":
		b, err := lib.UnHex(t[1])
		if err != nil {
			return "bad-op"
		}
		return "ok " + lib.Hex(verifx.Quote(nil, b))
	case len(t) == 5 && t[0] == "expect":
		idx, _ := strconv.Atoi(t[2])
		seed, _ := strconv.ParseUint(t[3], 10, 64)
		id, st, ok := buildForText(idx, seed, t[4])
		if !ok {
			return "bad-op"
		}
		s, err := text.Marshal(id, st)
		if err != nil {
			return "err"
		}
		return "ok " + lib.Hex([]byte(s))
	case len(t) == 5 && t[0] == "history":
		n, _ := strconv.Atoi(t[1])
		idx, _ := strconv.Atoi(t[2])
		seed, _ := strconv.ParseUint(t[3], 10, 64)
		id, st, ok := buildForText(idx, seed, t[4])
		if !ok {
			return "bad-op"
		}
		var buf bytes.Buffer
		enc := text.NewEncoder(&buf)
		var first []byte
		for i := 0; i < n; i++ {
			buf.Reset()
			if err := enc.Encode(id, st); err != nil {
				return "differ at " + strconv.Itoa(i) + " (error)"
			}
			if i == 0 {
				first = append([]byte(nil), buf.Bytes()...)
			} else if !bytes.Equal(first, buf.Bytes()) {
				return "differ at " + strconv.Itoa(i)
			}
			st.Message().ResetReadLimit(1 << 40) // the struct's own message is not what is being tested
		}
		return "same"
	}
	return "bad-op"
}

func genC20(rec *lib.Rec, r *lib.Rng, thorough bool) {
	loadSchema()
	genTranslatorStream(rec, r, 300, map[string]bool{"needsEscape": true})
	if Shard == 0 {
		for b := 0; b < 256; b++ { // every byte alone, and framed by plain bytes
			rec.Op("M", "text quote "+lib.Hex([]byte{byte(b)}), true)
			rec.Op("M", "text quote "+lib.Hex([]byte{'a', byte(b), 'z'}), true)
		}
	}
	if thorough && Shard < 2 {
		for a := Shard * 128; a < (Shard+1)*128; a++ {
			for b := 0; b < 256; b++ {
				rec.Op("M", "text quote "+lib.Hex([]byte{byte(a), byte(b)}), true)
			}
		}
	}
	if Shard == 0 {
		// a long-used encoder: a value whose rendering reads a lot of schema (a list of 40 Z structs, each of which
		// walks Z's 50 fields), rendered often enough to spend more than 64 MiB of schema reads
		if zi, zv := zvecValue(40); zv != nil {
			hn := 3000
			if thorough {
				hn = 60000
			}
			rec.Op("S", "text history "+strconv.Itoa(hn)+" "+strconv.Itoa(zi)+" 1 "+valStr(zv), true)
			rec.Count("history-long")
		}
	}
	n := 1500
	if thorough {
		n = 60000
	}
	n /= Shards
	for i := 0; i < n; i++ {
		rec.Op("M", "text quote "+lib.Hex(genTextBytes(r)), true)
		idx := r.Intn(len(structIDs))
		sn := schemaNodes[structIDs[idx]]
		b := 4 + r.Intn(25)
		v := genStructFor(r, sn, 4, &b, false)
		want := renderStructText(sn, v)
		seed := strconv.FormatUint(r.U64()%1000000, 10)
		rec.Op("S", "text expect "+lib.Hex([]byte(want))+" "+strconv.Itoa(idx)+" "+seed+" "+valStr(v), len(want) > 10)
		rec.Count("type " + sn.name[len(sn.name)-min(len(sn.name), 12):])
		if i%300 == 0 {
			rec.Op("S", "text history 2000 "+strconv.Itoa(idx)+" "+seed+" "+valStr(v), true)
			rec.Count("history")
		}
	}
}

// zvecValue is a Z whose active member is zvec, a list of n empty Z structs.
func zvecValue(n int) (int, *Val) {
	for i, id := range structIDs {
		sn := schemaNodes[id]
		if !strings.HasSuffix(sn.name, ":Z") {
			continue
		}
		for _, f := range sn.fields {
			if f.name != "zvec" {
				continue
			}
			v := &Val{Kind: vStruct, Data: make([]byte, 8*sn.dw)}
			v.Data[2*sn.discOff] = byte(f.disc)
			v.Data[2*sn.discOff+1] = byte(f.disc >> 8)
			for k := 0; k < sn.pc; k++ {
				v.Ptrs = append(v.Ptrs, &Val{Kind: vNull})
			}
			l := &Val{Kind: vList, EK: 7, N: n, DS: sn.dw, PC: sn.pc}
			for k := 0; k < n; k++ {
				e := &Val{Kind: vStruct, InList: true, Data: make([]byte, 8*sn.dw)}
				for j := 0; j < sn.pc; j++ {
					e.Ptrs = append(e.Ptrs, &Val{Kind: vNull})
				}
				l.Elems = append(l.Elems, e)
			}
			v.Ptrs[f.off] = l
			return i, v
		}
	}
	return 0, nil
}
