package main

import (
	"encoding/binary"
	"fmt"
	"math"
	"sort"
	"strconv"
	"strings"
	"sync"

	capnp "capnproto.org/go/capnp/v3"
	"capnproto.org/go/capnp/v3/schemas"
	"capnproto.org/go/capnp/v3/std/capnp/schema"
	"capnproto.org/go/capnp/v3/verifx"
	"verifharness/lib"
)

// A harness-side copy of the schema facts (read once through the public schema package), a value
// generator guided by them, and an independent renderer of the text format.

type sType struct {
	which  schema.Type_Which
	typeID uint64 // struct / enum / interface
	elem   *sType // list
}

type sField struct {
	name    string
	order   int
	disc    uint16 // 0xffff: not a union member
	isGroup bool
	groupID uint64
	off     uint32
	typ     sType
	defBits uint64 // default of a primitive, as stored bits
	defText []byte // default of text / data
	hasDef  bool   // a non-null pointer default (struct/list): such fields are never left null by the generator
}

type sNode struct {
	id        uint64
	name      string
	isStruct  bool
	isEnum    bool
	dw, pc    int
	discCount int
	discOff   uint32
	fields    []sField // in code order
	enums     []string
}

var (
	schemaOnce  sync.Once
	schemaNodes map[uint64]*sNode
	structIDs   []uint64
)

func readType(t schema.Type) sType {
	st := sType{which: t.Which()}
	switch t.Which() {
	case schema.Type_Which_structType:
		st.typeID = t.StructType().TypeId()
	case schema.Type_Which_enum:
		st.typeID = t.Enum().TypeId()
	case schema.Type_Which_interface:
		st.typeID = t.Interface().TypeId()
	case schema.Type_Which_list:
		et, _ := t.List().ElementType()
		e := readType(et)
		st.elem = &e
	}
	return st
}

func loadSchema() {
	schemaOnce.Do(func() {
		schemaNodes = map[uint64]*sNode{}
		data := schemas.Find(verifx.AircraftFileTypeID)
		if data == nil {
			panic("aircraft schema is not registered")
		}
		msg, err := capnp.Unmarshal(data)
		if err != nil {
			panic(err)
		}
		msg.TraverseLimit = 1 << 40
		req, err := schema.ReadRootCodeGeneratorRequest(msg)
		if err != nil {
			panic(err)
		}
		nodes, _ := req.Nodes()
		for i := 0; i < nodes.Len(); i++ {
			n := nodes.At(i)
			name, _ := n.DisplayName()
			sn := &sNode{id: n.Id(), name: name}
			switch n.Which() {
			case schema.Node_Which_enum:
				sn.isEnum = true
				es, _ := n.Enum().Enumerants()
				for k := 0; k < es.Len(); k++ {
					nm, _ := es.At(k).Name()
					sn.enums = append(sn.enums, nm)
				}
			case schema.Node_Which_structNode:
				sn.isStruct = true
				s := n.StructNode()
				sn.dw, sn.pc = int(s.DataWordCount()), int(s.PointerCount())
				sn.discCount, sn.discOff = int(s.DiscriminantCount()), s.DiscriminantOffset()
				fs, _ := s.Fields()
				for k := 0; k < fs.Len(); k++ {
					f := fs.At(k)
					nm, _ := f.Name()
					sf := sField{name: nm, order: int(f.CodeOrder()), disc: f.DiscriminantValue()}
					switch f.Which() {
					case schema.Field_Which_group:
						sf.isGroup, sf.groupID = true, f.Group().TypeId()
					case schema.Field_Which_slot:
						sl := f.Slot()
						sf.off = sl.Offset()
						t, _ := sl.Type()
						sf.typ = readType(t)
						dv, _ := sl.DefaultValue()
						switch dv.Which() {
						case schema.Value_Which_bool:
							if dv.Bool() {
								sf.defBits = 1
							}
						case schema.Value_Which_int8:
							sf.defBits = uint64(uint8(dv.Int8()))
						case schema.Value_Which_int16:
							sf.defBits = uint64(uint16(dv.Int16()))
						case schema.Value_Which_int32:
							sf.defBits = uint64(uint32(dv.Int32()))
						case schema.Value_Which_int64:
							sf.defBits = uint64(dv.Int64())
						case schema.Value_Which_uint8:
							sf.defBits = uint64(dv.Uint8())
						case schema.Value_Which_uint16:
							sf.defBits = uint64(dv.Uint16())
						case schema.Value_Which_uint32:
							sf.defBits = uint64(dv.Uint32())
						case schema.Value_Which_uint64:
							sf.defBits = dv.Uint64()
						case schema.Value_Which_float32:
							sf.defBits = uint64(math.Float32bits(dv.Float32()))
						case schema.Value_Which_float64:
							sf.defBits = math.Float64bits(dv.Float64())
						case schema.Value_Which_enum:
							sf.defBits = uint64(dv.Enum())
						case schema.Value_Which_text:
							sf.defText, _ = dv.TextBytes()
						case schema.Value_Which_data:
							sf.defText, _ = dv.Data()
						case schema.Value_Which_structValue:
							p, _ := dv.StructValue()
							sf.hasDef = p.IsValid()
						case schema.Value_Which_list:
							p, _ := dv.List()
							sf.hasDef = p.IsValid()
						}
					}
					sn.fields = append(sn.fields, sf)
				}
				sort.Slice(sn.fields, func(a, b int) bool { return sn.fields[a].order < sn.fields[b].order })
			}
			schemaNodes[sn.id] = sn
		}
		for id, n := range schemaNodes {
			if n.isStruct && !strings.Contains(n.name[strings.LastIndex(n.name, ":")+1:], ".") { // top-level structs (groups are reached through their parents)
				structIDs = append(structIDs, id)
			}
		}
		sort.Slice(structIDs, func(a, b int) bool { return structIDs[a] < structIDs[b] })
	})
}

// ---- values guided by the schema

func primWidth(w schema.Type_Which) int {
	switch w {
	case schema.Type_Which_int8, schema.Type_Which_uint8:
		return 1
	case schema.Type_Which_int16, schema.Type_Which_uint16, schema.Type_Which_enum:
		return 2
	case schema.Type_Which_int32, schema.Type_Which_uint32, schema.Type_Which_float32:
		return 4
	case schema.Type_Which_int64, schema.Type_Which_uint64, schema.Type_Which_float64:
		return 8
	}
	return 0
}

var interestingF64 = []float64{0, 1, -1, 0.5, 3.14, 1e100, 5e-324, math.Pi, 1.0 / 3, 16777217, math.Inf(1), math.Inf(-1), 1e21, 1e-7, 123456789.125}

func genBytesFor(r *lib.Rng, t sType, n int) []byte {
	w := primWidth(t.which)
	b := make([]byte, n*w)
	for i := 0; i < n; i++ {
		var v uint64
		switch t.which {
		case schema.Type_Which_float64:
			v = math.Float64bits(interestingF64[r.Intn(len(interestingF64))])
			if r.Chance(1, 4) {
				v = math.Float64bits(float64(r.U64()) / 7)
			}
		case schema.Type_Which_float32:
			v = uint64(math.Float32bits(float32(interestingF64[r.Intn(len(interestingF64))])))
		case schema.Type_Which_enum:
			v = uint64(r.Intn(12))
		default:
			v = r.U64()
			if r.Chance(1, 3) {
				v = uint64(r.Pick(0, 1, 2, 127, 128, 255, 256, 32767, 32768, 65535, 1<<31-1, 1<<31, 1<<32-1))
			}
			if r.Chance(1, 8) {
				v = ^uint64(0) - uint64(r.Intn(3))
			}
		}
		for k := 0; k < w; k++ {
			b[i*w+k] = byte(v >> (8 * uint(k)))
		}
	}
	return b
}

var textSamples = [][]byte{[]byte(""), []byte("hello"), []byte(`a"b\c`), []byte("it's"), []byte("tab\there"), []byte("nl\n"), {0x7f}, {0x80, 0xff}, {1, 2, 3}, []byte("日本"), []byte("\\x41"), []byte(`""`)}

func genTextBytes(r *lib.Rng) []byte {
	if r.Chance(2, 3) {
		return append([]byte(nil), textSamples[r.Intn(len(textSamples))]...)
	}
	b := r.Bytes(r.Intn(12))
	for i := range b {
		if b[i] == 0 {
			b[i] = 1
		}
	}
	return b
}

func listKindFor(t sType) int {
	switch t.which {
	case schema.Type_Which_void:
		return 0
	case schema.Type_Which_bool:
		return 1
	case schema.Type_Which_structType:
		return 7
	case schema.Type_Which_text, schema.Type_Which_data, schema.Type_Which_list, schema.Type_Which_interface, schema.Type_Which_anyPointer:
		return 6
	}
	switch primWidth(t.which) {
	case 1:
		return 2
	case 2:
		return 3
	case 4:
		return 4
	}
	return 5
}

// genPtrFor draws a value for a pointer field of type t (nil = null).
func genPtrFor(r *lib.Rng, t sType, depth int, budget *int) *Val {
	if *budget <= 0 || depth <= 0 || r.Chance(1, 6) {
		return &Val{Kind: vNull}
	}
	*budget--
	switch t.which {
	case schema.Type_Which_text:
		b := append(genTextBytes(r), 0)
		return &Val{Kind: vList, EK: 2, N: len(b), Prim: b}
	case schema.Type_Which_data:
		b := r.Bytes(r.Intn(10))
		if r.Bool() {
			b = genTextBytes(r)
		}
		return &Val{Kind: vList, EK: 2, N: len(b), Prim: b}
	case schema.Type_Which_structType:
		return genStructFor(r, schemaNodes[t.typeID], depth-1, budget, false)
	case schema.Type_Which_interface:
		return &Val{Kind: vCap, Cap: uint32(r.Intn(4))}
	case schema.Type_Which_anyPointer:
		return &Val{Kind: vStruct, Data: r.Bytes(8)}
	case schema.Type_Which_list:
		e := *t.elem
		n := r.Pick(0, 1, 2, 3, 5)
		ek := listKindFor(e)
		v := &Val{Kind: vList, EK: ek, N: n}
		switch ek {
		case 0:
		case 1:
			v.Prim = genData(r, (n+7)/8)
		case 6:
			for i := 0; i < n; i++ {
				v.Elems = append(v.Elems, genPtrFor(r, e, depth-1, budget))
			}
		case 7:
			sn := schemaNodes[e.typeID]
			v.DS, v.PC = sn.dw, sn.pc
			if r.Chance(1, 4) { // another schema version: narrower or wider elements
				v.DS, v.PC = r.Intn(sn.dw+2), r.Intn(sn.pc+2)
			}
			for i := 0; i < n; i++ {
				e := genStructFor(r, sn, depth-1, budget, true)
				e = adjust(e, v.DS, v.PC)
				e.InList = true
				v.Elems = append(v.Elems, e)
			}
		default:
			v.Prim = genBytesFor(r, e, n)
		}
		return v
	}
	return &Val{Kind: vNull}
}

// genStructFor draws a struct value shaped like node sn (or like an older / newer version of it).
func genStructFor(r *lib.Rng, sn *sNode, depth int, budget *int, full bool) *Val {
	dw, pc := sn.dw, sn.pc
	if !full && r.Chance(1, 5) { // version skew
		dw, pc = r.Intn(sn.dw+2), r.Intn(sn.pc+2)
		for _, f := range sn.fields {
			if f.hasDef && pc <= int(f.off) {
				pc = int(f.off) + 1 // keep pointer fields that have a non-null default
			}
		}
	}
	v := &Val{Kind: vStruct, Data: make([]byte, 8*sn.dw)}
	for i := 0; i < sn.pc; i++ {
		v.Ptrs = append(v.Ptrs, &Val{Kind: vNull})
	}
	fillFields(r, sn, v, depth, budget)
	return adjust(v, dw, pc)
}

func fillFields(r *lib.Rng, sn *sNode, v *Val, depth int, budget *int) {
	active := uint16(0xffff)
	if sn.discCount > 0 {
		active = uint16(r.Intn(sn.discCount))
		if r.Chance(1, 30) {
			active = uint16(sn.discCount + r.Intn(3)) // a member this schema does not know
		}
		binary.LittleEndian.PutUint16(v.Data[2*sn.discOff:], active)
	}
	for _, f := range sn.fields {
		if f.disc != 0xffff && f.disc != active {
			continue
		}
		if f.isGroup {
			fillFields(r, schemaNodes[f.groupID], v, depth, budget)
			continue
		}
		switch f.typ.which {
		case schema.Type_Which_void:
		case schema.Type_Which_bool:
			if r.Bool() {
				v.Data[f.off/8] ^= 1 << (f.off % 8)
			}
		case schema.Type_Which_text, schema.Type_Which_data, schema.Type_Which_structType, schema.Type_Which_list,
			schema.Type_Which_interface, schema.Type_Which_anyPointer:
			p := genPtrFor(r, f.typ, depth, budget)
			for tries := 0; p.Kind == vNull && f.hasDef && tries < 50; tries++ {
				// a null pointer here would show the schema's default struct/list, which this renderer does not model
				b2 := 3
				p = genPtrFor(r, f.typ, 2, &b2)
			}
			if int(f.off) < len(v.Ptrs) {
				v.Ptrs[f.off] = p
			}
		default:
			w := primWidth(f.typ.which)
			copy(v.Data[int(f.off)*w:], genBytesFor(r, f.typ, 1))
		}
	}
}

// ---- independent renderer of the text format (from the format's description, over Val + schema facts)

func quoteRef(b []byte) string {
	var sb strings.Builder
	sb.WriteByte('"')
	for _, c := range b {
		switch c {
		case 7:
			sb.WriteString(`\a`)
		case 8:
			sb.WriteString(`\b`)
		case 12:
			sb.WriteString(`\f`)
		case 10:
			sb.WriteString(`\n`)
		case 13:
			sb.WriteString(`\r`)
		case 9:
			sb.WriteString(`\t`)
		case 11:
			sb.WriteString(`\v`)
		case '\'':
			sb.WriteString(`\'`)
		case '"':
			sb.WriteString(`\"`)
		case '\\':
			sb.WriteString(`\\`)
		default:
			if c < 0x20 || c >= 0x7f {
				sb.WriteString(fmt.Sprintf(`\x%02x`, c))
			} else {
				sb.WriteByte(c)
			}
		}
	}
	sb.WriteByte('"')
	return sb.String()
}

func dataBits(data []byte, off, w int) uint64 {
	var v uint64
	for k := 0; k < w; k++ {
		if off+k < len(data) {
			v |= uint64(data[off+k]) << (8 * uint(k))
		}
	}
	return v
}

func renderPrim(t sType, bits uint64) string {
	switch t.which {
	case schema.Type_Which_int8:
		return strconv.FormatInt(int64(int8(bits)), 10)
	case schema.Type_Which_int16:
		return strconv.FormatInt(int64(int16(bits)), 10)
	case schema.Type_Which_int32:
		return strconv.FormatInt(int64(int32(bits)), 10)
	case schema.Type_Which_int64:
		return strconv.FormatInt(int64(bits), 10)
	case schema.Type_Which_uint8, schema.Type_Which_uint16, schema.Type_Which_uint32, schema.Type_Which_uint64:
		return strconv.FormatUint(bits, 10)
	case schema.Type_Which_float32:
		return strconv.FormatFloat(float64(math.Float32frombits(uint32(bits))), 'g', -1, 32)
	case schema.Type_Which_float64:
		return strconv.FormatFloat(math.Float64frombits(bits), 'g', -1, 64)
	case schema.Type_Which_enum:
		en := schemaNodes[t.typeID]
		if int(bits) < len(en.enums) {
			return en.enums[bits]
		}
		return strconv.FormatUint(bits, 10)
	}
	return "?"
}

func asStruct(v *Val) *Val {
	if v != nil && v.Kind == vStruct {
		return v
	}
	return &Val{Kind: vStruct}
}

func renderStructText(sn *sNode, v *Val) string {
	var parts []string
	active := uint16(0)
	if sn.discCount > 0 {
		active = uint16(dataBits(v.Data, int(2*sn.discOff), 2))
	}
	for _, f := range sn.fields {
		if f.disc != 0xffff && f.disc != active {
			continue
		}
		var val string
		if f.isGroup {
			val = renderStructText(schemaNodes[f.groupID], v)
		} else {
			val = renderField(f, v)
		}
		parts = append(parts, f.name+" = "+val)
	}
	return "(" + strings.Join(parts, ", ") + ")"
}

func ptrAt(v *Val, i int) *Val {
	if i < len(v.Ptrs) && v.Ptrs[i] != nil {
		return v.Ptrs[i]
	}
	return &Val{Kind: vNull}
}

func renderField(f sField, v *Val) string {
	t := f.typ
	switch t.which {
	case schema.Type_Which_void:
		return "void"
	case schema.Type_Which_bool:
		bit := dataBits(v.Data, int(f.off/8), 1)>>(f.off%8)&1 ^ f.defBits
		if bit == 1 {
			return "true"
		}
		return "false"
	case schema.Type_Which_text:
		p := ptrAt(v, int(f.off))
		if p.Kind != vList {
			return quoteRef(f.defText)
		}
		if p.EK != 2 || p.N == 0 || p.Prim[p.N-1] != 0 {
			return quoteRef(nil)
		}
		return quoteRef(p.Prim[:p.N-1])
	case schema.Type_Which_data:
		p := ptrAt(v, int(f.off))
		if p.Kind != vList {
			return quoteRef(f.defText)
		}
		return quoteRef(p.Prim)
	case schema.Type_Which_structType:
		return renderStructText(schemaNodes[t.typeID], asStruct(ptrAt(v, int(f.off))))
	case schema.Type_Which_list:
		return renderListText(*t.elem, ptrAt(v, int(f.off)))
	case schema.Type_Which_interface:
		if ptrAt(v, int(f.off)).Kind != vNull {
			return "<external capability>"
		}
		return "null"
	case schema.Type_Which_anyPointer:
		return "<opaque pointer>"
	}
	w := primWidth(t.which)
	return renderPrim(t, (dataBits(v.Data, int(f.off)*w, w)^f.defBits)&(^uint64(0)>>(64-8*uint(w))))
}

func renderListText(e sType, l *Val) string {
	if l == nil || l.Kind != vList {
		return "[]"
	}
	var parts []string
	for i := 0; i < l.N; i++ {
		switch e.which {
		case schema.Type_Which_void:
			parts = append(parts, "void")
		case schema.Type_Which_bool:
			if l.Prim[i/8]>>(uint(i)%8)&1 == 1 {
				parts = append(parts, "true")
			} else {
				parts = append(parts, "false")
			}
		case schema.Type_Which_structType:
			parts = append(parts, renderStructText(schemaNodes[e.typeID], asStruct(l.Elems[i])))
		case schema.Type_Which_text:
			p := l.Elems[i]
			if p.Kind != vList || p.N == 0 || p.Prim[p.N-1] != 0 {
				parts = append(parts, quoteRef(nil))
			} else {
				parts = append(parts, quoteRef(p.Prim[:p.N-1]))
			}
		case schema.Type_Which_data:
			p := l.Elems[i]
			if p.Kind != vList {
				parts = append(parts, quoteRef(nil))
			} else {
				parts = append(parts, quoteRef(p.Prim))
			}
		case schema.Type_Which_list:
			parts = append(parts, renderListText(*e.elem, l.Elems[i]))
		case schema.Type_Which_interface:
			if l.Elems[i].Kind != vNull {
				parts = append(parts, "<external capability>")
			} else {
				parts = append(parts, "null")
			}
		case schema.Type_Which_anyPointer:
			parts = append(parts, "<opaque pointer>")
		default:
			w := primWidth(e.which)
			parts = append(parts, renderPrim(e, dataBits(l.Prim, i*w, w)))
		}
	}
	return "[" + strings.Join(parts, ", ") + "]"
}
