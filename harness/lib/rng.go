// Package lib holds the shared parts of the correspondence harness:
// the seeded PRNG, the op recorder and small encoding helpers.
package lib

// Rng is SplitMix64; every random choice of a run derives from one state.
type Rng struct{ s uint64 }

func NewRng(seed uint64) *Rng { return &Rng{s: seed*0x9E3779B97F4A7C15 + 0x1234567} }

func (r *Rng) U64() uint64 {
	r.s += 0x9E3779B97F4A7C15
	z := r.s
	z = (z ^ (z >> 30)) * 0xBF58476D1CE4E5B9
	z = (z ^ (z >> 27)) * 0x94D049BB133111EB
	return z ^ (z >> 31)
}

// Intn returns a value in [0,n).
func (r *Rng) Intn(n int) int {
	if n <= 0 {
		return 0
	}
	return int(r.U64() % uint64(n))
}

func (r *Rng) Bool() bool { return r.U64()&1 == 1 }

// Chance returns true with probability num/den.
func (r *Rng) Chance(num, den int) bool { return r.Intn(den) < num }

func (r *Rng) Bytes(n int) []byte {
	b := make([]byte, n)
	for i := range b {
		b[i] = byte(r.U64())
	}
	return b
}

// Pick returns one of the given ints.
func (r *Rng) Pick(xs ...int) int { return xs[r.Intn(len(xs))] }

// Fork derives an independent generator (for sharding by case index).
func (r *Rng) Fork(i uint64) *Rng { return NewRng(r.s ^ (i+1)*0xD1B54A32D192ED03) }

// PickS returns one of the given strings.
func (r *Rng) PickS(xs ...string) string { return xs[r.Intn(len(xs))] }
