package lib

import (
	"bufio"
	"encoding/hex"
	"encoding/json"
	"fmt"
	"hash/fnv"
	"os"
	"path/filepath"
	"runtime"
	"sort"
	"strings"
	"time"
)

// Hex encodes bytes for the line protocol ("-" is the empty string).
func Hex(b []byte) string {
	if len(b) == 0 {
		return "-"
	}
	return hex.EncodeToString(b)
}

// UnHex decodes the line-protocol form.
func UnHex(s string) ([]byte, error) {
	if s == "-" {
		return nil, nil
	}
	return hex.DecodeString(s)
}

// Rec records one run: the op lines sent to the model, the implementation's
// canonical result for each, and the measured statistics for the evidence.
type Rec struct {
	dir      string
	ops      *bufio.Writer
	impl     *bufio.Writer
	fo, fi   *os.File
	N        int
	seen     map[uint64]struct{}
	Distinct int // distinct AND non-trivial
	Samples  []string
	Dist     map[string]int
	Exec     func(line string) string
	Sync     bool // flush both files around every op (streams whose ops start goroutines in the implementation)
}

func NewRec(dir string, exec func(string) string) (*Rec, error) {
	if err := os.MkdirAll(dir, 0o755); err != nil {
		return nil, err
	}
	fo, err := os.Create(filepath.Join(dir, "ops.txt"))
	if err != nil {
		return nil, err
	}
	fi, err := os.Create(filepath.Join(dir, "impl.txt"))
	if err != nil {
		return nil, err
	}
	return &Rec{dir: dir, fo: fo, fi: fi, ops: bufio.NewWriterSize(fo, 1<<20), impl: bufio.NewWriterSize(fi, 1<<20),
		seen: map[uint64]struct{}{}, Dist: map[string]int{}, Exec: exec}, nil
}

// Op executes one op line on the implementation and records it.
// kind is "S" when the model side is the property's own spec/oracle (a
// difference is a property violation with this line as the failing input) and
// "M" when the model side is a model of the code (a difference breaks the
// correspondence).  nontrivial says whether the case counts as non-trivial
// by the stream's rule.
func (r *Rec) Op(kind, line string, nontrivial bool) string {
	// the op line reaches the disk before the op runs: if the implementation kills the process (a panic in a
	// goroutine it started), ops.txt ends with the op that did it
	fmt.Fprintf(r.ops, "%s %s\n", kind, line)
	if r.Sync {
		r.ops.Flush()
		r.impl.Flush()
	}
	res := r.execGuarded(line)
	fmt.Fprintf(r.impl, "%s\n", res)
	r.N++
	h := fnv.New64a()
	h.Write([]byte(line))
	k := h.Sum64()
	if _, ok := r.seen[k]; !ok {
		r.seen[k] = struct{}{}
		if nontrivial {
			r.Distinct++
			if len(r.Samples) < 3 && len(line) < 400 {
				r.Samples = append(r.Samples, line+" => "+trunc(res, 200))
			}
		}
	}
	// distribution: first two tokens + result kind
	t := strings.SplitN(line, " ", 3)
	key := t[0]
	if len(t) > 1 {
		key += " " + t[1]
	}
	rk := strings.SplitN(res, " ", 2)[0]
	if i := strings.IndexAny(rk, ":;{[,"); i >= 0 {
		rk = rk[:i+1] + "…"
	}
	if len(rk) > 16 {
		rk = rk[:16] + "…"
	}
	r.Dist[key+" -> "+rk]++
	return res
}

// OpTimeout bounds one op; a slower op is recorded as "blocked" and ends the run (a runaway
// goroutine cannot be stopped, so nothing after it would be trustworthy).
var OpTimeout = 60 * time.Second

// MemLimit: an op during which the heap grows beyond this is recorded as "blocked".
var MemLimit uint64 = 3 << 30

func (r *Rec) execGuarded(line string) string {
	done := make(chan string, 1)
	go func() { done <- r.Exec(line) }()
	limit := OpTimeout
	if strings.HasPrefix(line, "gen15 ") {
		limit = 3 * OpTimeout // runs the Go compiler on generated code: slow on a loaded machine
	}
	timer := time.NewTimer(limit)
	defer timer.Stop()
	tick := time.NewTicker(200 * time.Millisecond)
	defer tick.Stop()
	for {
		select {
		case res := <-done:
			return res
		case <-tick.C:
			var ms runtime.MemStats
			runtime.ReadMemStats(&ms)
			if ms.HeapAlloc < MemLimit {
				continue
			}
		case <-timer.C:
		}
		// blocked: record it and stop the run
		fmt.Fprintf(r.impl, "blocked\n")
		r.N++
		r.Dist["blocked"]++
		r.Close(map[string]interface{}{"stopped_after_blocked_op": line[:minInt(len(line), 300)]})
		os.Exit(3)
	}
}

func minInt(a, b int) int {
	if a < b {
		return a
	}
	return b
}

func trunc(s string, n int) string {
	if len(s) > n {
		return s[:n] + "…"
	}
	return s
}

// Count adds to a named bucket of the input distribution.
func (r *Rec) Count(key string) { r.Dist["gen:"+key]++ }

// Close flushes and writes meta.json.
func (r *Rec) Close(extra map[string]interface{}) error {
	r.ops.Flush()
	r.impl.Flush()
	r.fo.Close()
	r.fi.Close()
	keys := make([]string, 0, len(r.Dist))
	for k := range r.Dist {
		keys = append(keys, k)
	}
	sort.Strings(keys)
	m := map[string]interface{}{
		"evaluations":         r.N,
		"distinct_nontrivial": r.Distinct,
		"samples":             r.Samples,
		"distribution":        r.Dist,
	}
	for k, v := range extra {
		m[k] = v
	}
	b, _ := json.MarshalIndent(m, "", " ")
	return os.WriteFile(filepath.Join(r.dir, "meta.json"), b, 0o644)
}

// Guard runs f, mapping a panic to the canonical result "panic".
func Guard(f func() string) (res string) {
	defer func() {
		if e := recover(); e != nil {
			res = "panic"
		}
	}()
	return f()
}
