package main

import (
	"context"
	"strconv"
	"strings"
	"sync"
	"sync/atomic"
	"time"

	capnp "capnproto.org/go/capnp/v3"
	"verifharness/lib"
)

// recCaller is an instrumented PipelineCaller: it counts the pipelined calls delivered to it.
type recCaller struct {
	n     int32
	delay time.Duration
}

func (c *recCaller) PipelineSend(ctx context.Context, transform []capnp.PipelineOp, s capnp.Send) (*capnp.Answer, capnp.ReleaseFunc) {
	atomic.AddInt32(&c.n, 1)
	if c.delay > 0 {
		time.Sleep(c.delay)
	}
	return capnp.ErrorAnswer(s.Method, errMark), func() {}
}

func (c *recCaller) PipelineRecv(ctx context.Context, transform []capnp.PipelineOp, r capnp.Recv) capnp.PipelineCaller {
	atomic.AddInt32(&c.n, 1)
	r.Reject(errMark)
	return nil
}

// countHook counts calls delivered to a capability found in the result.
type countHook struct {
	recHook
	n int32
}

func (h *countHook) Send(ctx context.Context, s capnp.Send) (*capnp.Answer, capnp.ReleaseFunc) {
	atomic.AddInt32(&h.n, 1)
	return h.recHook.Send(ctx, s)
}

// resultWithCaps builds a result struct whose pointer fields 0 and 1 hold capabilities ha and hb.
// pathBField is the pointer field of path B: beyond 255, so that both bytes of the field index matter.
const pathBField = 300

var wrongCap countHook // sits in field 300&0xff; nothing may ever be delivered to it

func resultWithCaps(ha, hb capnp.ClientHook) (capnp.Ptr, *capnp.Message) {
	msg, seg, _ := capnp.NewMessage(capnp.SingleSegment(nil))
	st, _ := capnp.NewRootStruct(seg, capnp.ObjectSize{PointerCount: pathBField + 1})
	ia := capnp.NewInterface(seg, msg.AddCap(capnp.NewClient(ha)))
	ib := capnp.NewInterface(seg, msg.AddCap(capnp.NewClient(hb)))
	iw := capnp.NewInterface(seg, msg.AddCap(capnp.NewClient(&wrongCap)))
	st.SetPtr(0, ia.ToPtr())
	st.SetPtr(pathBField, ib.ToPtr())
	st.SetPtr(pathBField&0xff, iw.ToPtr())
	return st.ToPtr(), msg
}

// timed runs f; "blocked" if it does not return in time.
func timed(d time.Duration, f func() string) string {
	ch := make(chan string, 1)
	go func() {
		defer func() {
			if e := recover(); e != nil {
				ch <- "panic"
			}
		}()
		ch <- f()
	}()
	select {
	case r := <-ch:
		return r
	case <-time.After(d):
		return "blocked"
	}
}

func pathOps(a bool) []capnp.PipelineOp {
	if a {
		return []capnp.PipelineOp{{Field: 0}}
	}
	return []capnp.PipelineOp{{Field: pathBField}}
}

// execPromiseScript: "promise script <op,op,...>"
func execPromiseScript(script string) string {
	pc := &recCaller{}
	p := capnp.NewPromise(capnp.Method{}, pc)
	ha, hb := &countHook{}, &countHook{}
	resolved := false
	var proxyA, proxyB *capnp.Client
	var out []string
	stuck := false
	for _, op := range strings.Split(script, ",") {
		if stuck {
			break
		}
		res := timed(2*time.Second, func() string {
			switch op {
			case "clientA", "clientB":
				f := p.Answer().Field(0, nil)
				if op == "clientB" {
					f = p.Answer().Field(pathBField, nil)
				}
				c := f.Client()
				if op == "clientA" {
					if !resolved && proxyA != nil && c != proxyA {
						return "different-client"
					}
					if !resolved {
						proxyA = c
					}
				} else {
					if !resolved && proxyB != nil && c != proxyB {
						return "different-client"
					}
					if !resolved {
						proxyB = c
					}
				}
				return "-"
			case "call":
				p.Answer().PipelineSend(context.Background(), pathOps(true), capnp.Send{})
				return "-"
			case "callproxyA":
				if proxyA == nil {
					return "skip"
				}
				proxyA.SendCall(context.Background(), capnp.Send{})
				return "-"
			case "callproxyB":
				if proxyB == nil {
					return "skip"
				}
				proxyB.SendCall(context.Background(), capnp.Send{})
				return "-"
			case "fulfill":
				if resolved {
					return "skip"
				}
				r, _ := resultWithCaps(ha, hb)
				p.Fulfill(r)
				resolved = true
				return "-"
			case "reject":
				if resolved {
					return "skip"
				}
				p.Reject(errMark)
				resolved = true
				return "-"
			case "release":
				if !resolved {
					return "skip"
				}
				p.ReleaseClients()
				return "-"
			}
			return "bad-op"
		})
		if res == "blocked" || res == "panic" {
			stuck = true
		}
		out = append(out, op+":"+res+":c"+strconv.Itoa(int(atomic.LoadInt32(&pc.n)))+"r"+strconv.Itoa(int(atomic.LoadInt32(&ha.n)+atomic.LoadInt32(&hb.n))))
	}
	if atomic.LoadInt32(&wrongCap.n) != 0 {
		atomic.StoreInt32(&wrongCap.n, 0)
		out = append(out, "delivered-to-the-wrong-capability")
	}
	return strings.Join(out, ";")
}

// execPromiseJoin: a promise that already handed out pipelined clients is joined onto an answer whose promise
// has none; afterwards the parent is fulfilled and the child's client must reach the parent's result.
func execPromiseJoin(t []string) string {
	return timed(5*time.Second, func() string {
		parentHasClients := t[0] == "1"
		childClients, _ := strconv.Atoi(t[1])
		parent := capnp.NewPromise(capnp.Method{}, &recCaller{})
		child := capnp.NewPromise(capnp.Method{}, &recCaller{})
		var cc []*capnp.Client
		if parentHasClients {
			parent.Answer().Field(0, nil).Client()
		}
		for i := 0; i < childClients; i++ {
			cc = append(cc, child.Answer().Field(uint16(i%2)*pathBField, nil).Client())
		}
		child.Join(parent.Answer())
		ha, hb := &countHook{}, &countHook{}
		r, _ := resultWithCaps(ha, hb)
		parent.Fulfill(r)
		for _, c := range cc {
			c.SendCall(context.Background(), capnp.Send{})
		}
		if int(atomic.LoadInt32(&ha.n)+atomic.LoadInt32(&hb.n)) != childClients {
			return "child-clients-do-not-follow " + strconv.Itoa(int(ha.n+hb.n))
		}
		parent.ReleaseClients()
		child.ReleaseClients()
		return "ok"
	})
}

// execPromiseStress: goroutines make pipelined calls and ask for pipelined clients while another resolves the
// promise; every call must be delivered exactly once and nothing may hang.
func execPromiseStress(t []string) string {
	seed, _ := strconv.ParseUint(t[0], 10, 64)
	k, _ := strconv.Atoi(t[1])
	n, _ := strconv.Atoi(t[2])
	return timed(20*time.Second, func() string {
		pc := &recCaller{delay: time.Duration(seed%3) * 50 * time.Microsecond}
		p := capnp.NewPromise(capnp.Method{}, pc)
		ha, hb := &countHook{}, &countHook{}
		var wg sync.WaitGroup
		var issued int32
		for g := 0; g < k; g++ {
			wg.Add(1)
			go func(g int) {
				defer wg.Done()
				r := lib.NewRng(seed).Fork(uint64(g))
				for i := 0; i < n; i++ {
					switch r.Intn(3) {
					case 0:
						p.Answer().Field(uint16(r.Intn(2))*pathBField, nil).Client()
					case 1:
						atomic.AddInt32(&issued, 1)
						p.Answer().PipelineSend(context.Background(), pathOps(true), capnp.Send{})
					case 2:
						// (calls THROUGH the pipelined client while Fulfill runs are the known finding replayed by
						// `promise proxyrace`; the stress keeps to direct pipelined calls)
						atomic.AddInt32(&issued, 1)
						p.Answer().Field(0, nil).Client()
						p.Answer().PipelineSend(context.Background(), pathOps(true), capnp.Send{})
					}
				}
			}(g)
		}
		time.Sleep(time.Duration(seed%5) * 100 * time.Microsecond)
		r, _ := resultWithCaps(ha, hb)
		p.Fulfill(r)
		wg.Wait()
		p.ReleaseClients()
		got := atomic.LoadInt32(&pc.n) + atomic.LoadInt32(&ha.n)
		if got != issued {
			return "delivered " + strconv.Itoa(int(got)) + " of " + strconv.Itoa(int(issued))
		}
		return "ok"
	})
}

// execProxyRace: a call through a pipelined client has been counted by the client (startCall) but has not reached
// the promise yet when Fulfill begins.  Fulfill then fulfils the pipelined client and waits for that call to
// finish, while the call waits for the promise to resolve.
func execProxyRace() string {
	pc := &recCaller{}
	p := capnp.NewPromise(capnp.Method{}, pc)
	c := p.Answer().Field(0, nil).Client()
	var armed int32
	parked := make(chan struct{})
	resume := make(chan struct{})
	capnp.VerifSetYield(func(point string) {
		if point == "SendCall" && atomic.CompareAndSwapInt32(&armed, 1, 0) {
			close(parked)
			<-resume
		}
	})
	defer capnp.VerifSetYield(nil)
	callDone := make(chan struct{})
	go func() {
		atomic.StoreInt32(&armed, 1)
		ctx, cancel := context.WithTimeout(context.Background(), 3*time.Second)
		defer cancel()
		c.SendCall(ctx, capnp.Send{})
		close(callDone)
	}()
	<-parked
	ha, hb := &countHook{}, &countHook{}
	fulfilled := make(chan struct{})
	go func() {
		r, _ := resultWithCaps(ha, hb)
		p.Fulfill(r)
		close(fulfilled)
	}()
	time.Sleep(50 * time.Millisecond) // let Fulfill enter the pending state
	close(resume)
	select {
	case <-fulfilled:
		<-callDone
		return "ok"
	case <-time.After(1500 * time.Millisecond):
		// the call's context expires after 3 s, which lets everything unwind; the operations did block on each other
		<-callDone
		<-fulfilled
		return "blocked"
	}
}

func execPromise(t []string) string {
	switch {
	case len(t) == 1 && t[0] == "proxyrace":
		return execProxyRace()
	case len(t) == 1 && t[0] == "joinpending":
		return execJoinPending()
	case len(t) == 1 && t[0] == "joinchain":
		return execJoinChain()
	case len(t) == 2 && t[0] == "joinseq":
		return execJoinSeq(t[1])
	case len(t) == 1 && t[0] == "fulfillinflight":
		return execFulfillInflight()
	case len(t) == 1 && t[0] == "joininflight":
		return execJoinInflight()
	case len(t) == 1 && t[0] == "joinnested":
		return execJoinNested()
	case len(t) == 2 && t[0] == "recvpending":
		return execRecvPending(t[1] == "1")
	case len(t) == 3 && t[0] == "joinrel":
		return execJoinRel(t[1:])
	case len(t) == 2 && t[0] == "joinrel":
		return execJoinRel([]string{t[1], ""})
	case len(t) == 2 && t[0] == "script":
		return execPromiseScript(t[1])
	case len(t) == 3 && t[0] == "join":
		return execPromiseJoin(t[1:])
	case len(t) == 4 && t[0] == "stress":
		return execPromiseStress(t[1:])
	}
	return "bad-op"
}

var promiseOps = []string{"clientA", "clientA", "clientB", "call", "callproxyA", "callproxyB", "fulfill", "reject", "release"}

// gateCaller is a PipelineCaller whose calls stay inside it until released.
type gateCaller struct {
	entered int32
	gate    chan struct{}
}

func (c *gateCaller) PipelineSend(ctx context.Context, transform []capnp.PipelineOp, s capnp.Send) (*capnp.Answer, capnp.ReleaseFunc) {
	atomic.AddInt32(&c.entered, 1)
	<-c.gate
	return capnp.ErrorAnswer(s.Method, errMark), func() {}
}

func (c *gateCaller) PipelineRecv(ctx context.Context, transform []capnp.PipelineOp, r capnp.Recv) capnp.PipelineCaller {
	r.Reject(errMark)
	return nil
}

func waitUntil(f func() bool) bool {
	for i := 0; i < 4000; i++ {
		if f() {
			return true
		}
		time.Sleep(50 * time.Microsecond)
	}
	return false
}

// execFulfillInflight: a call made through Answer.PipelineSend is still inside the promise's caller and no pipelined
// client was ever handed out; Fulfill (and Reject) must wait until the call has yielded its answer ("Fulfill will wait
// for any outstanding calls to the underlying PipelineCaller to yield Answers"), and return once it has.
func execFulfillInflight() string {
	return timed(6*time.Second, func() string {
		for _, reject := range []bool{false, true} {
			ga := &gateCaller{gate: make(chan struct{})}
			a := capnp.NewPromise(capnp.Method{}, ga)
			callDone := make(chan struct{})
			go func() {
				a.Answer().PipelineSend(context.Background(), pathOps(true), capnp.Send{})
				close(callDone)
			}()
			if !waitUntil(func() bool { return atomic.LoadInt32(&ga.entered) == 1 }) {
				return "setup-failed"
			}
			fa := make(chan struct{})
			go func() {
				if reject {
					a.Reject(errMark)
				} else {
					res, _ := resultWithCaps(&countHook{}, &countHook{})
					a.Fulfill(res)
				}
				close(fa)
			}()
			early := false
			select {
			case <-fa:
				early = true
			case <-time.After(40 * time.Millisecond):
			}
			ga.gate <- struct{}{} // the call yields
			select {
			case <-fa:
			case <-time.After(2 * time.Second):
				return "resolution-blocks-after-the-call-yielded"
			}
			<-callDone
			a.ReleaseClients()
			if early {
				return "resolved-while-a-call-was-still-inside-the-caller"
			}
		}
		return "ok"
	})
}

// execJoinPending: B joins A's answer while A is pending resolution (A's Fulfill waits for a pipelined call that
// is still inside A's caller).  When the call yields, A and then B resolve; B must then behave as resolved.
func execJoinPending() string {
	return timed(6*time.Second, func() string {
		ga := &gateCaller{gate: make(chan struct{})}
		a := capnp.NewPromise(capnp.Method{}, ga)
		b := capnp.NewPromise(capnp.Method{}, &recCaller{})
		go a.Answer().PipelineSend(context.Background(), pathOps(true), capnp.Send{})
		if !waitUntil(func() bool { return atomic.LoadInt32(&ga.entered) == 1 }) {
			return "setup-failed"
		}
		ha, hb := &countHook{}, &countHook{}
		res, _ := resultWithCaps(ha, hb)
		fa := make(chan struct{})
		go func() { a.Fulfill(res); close(fa) }()
		time.Sleep(20 * time.Millisecond) // A is pending resolution now
		jb := make(chan struct{})
		go func() { b.Join(a.Answer()); close(jb) }()
		time.Sleep(20 * time.Millisecond)
		ga.gate <- struct{}{} // the call yields
		<-fa
		<-jb
		ctx, cancel := context.WithTimeout(context.Background(), 2*time.Second)
		defer cancel()
		b.Answer().PipelineSend(ctx, pathOps(true), capnp.Send{})
		if atomic.LoadInt32(&ha.n) != 1 {
			return "call-on-joined-promise-not-delivered"
		}
		cl := make(chan struct{})
		go func() { b.Answer().Field(0, nil).Client(); close(cl) }()
		select {
		case <-cl:
		case <-time.After(2 * time.Second):
			return "Client()-on-joined-promise-blocks"
		}
		a.ReleaseClients()
		b.ReleaseClients()
		return "ok"
	})
}

// execJoinChain: pc joins pb, then pb joins pa (inside-out); a pipelined client handed out by pc must stay usable
// until every promise of the chain has released its clients.
func execJoinChain() string {
	return timed(6*time.Second, func() string {
		pa := capnp.NewPromise(capnp.Method{}, &recCaller{})
		pb := capnp.NewPromise(capnp.Method{}, &recCaller{})
		pcc := capnp.NewPromise(capnp.Method{}, &recCaller{})
		c := pcc.Answer().Field(0, nil).Client()
		pcc.Join(pb.Answer())
		pb.Join(pa.Answer())
		ha, hb := &countHook{}, &countHook{}
		res, _ := resultWithCaps(ha, hb)
		pa.Fulfill(res)
		pb.ReleaseClients()
		pcc.ReleaseClients()
		c.SendCall(context.Background(), capnp.Send{})
		if atomic.LoadInt32(&ha.n) != 1 {
			return "pipelined-client-released-before-the-last-ReleaseClients"
		}
		pa.ReleaseClients()
		return "ok"
	})
}

// execJoinInflight: B has a pipelined call still inside its caller when B.Join(A) is called (A unresolved): Join waits
// for that call.  A second pipelined call made on B during the wait must be delivered exactly once — to A's caller.
func execJoinInflight() string {
	return timed(8*time.Second, func() string {
		ca := &recCaller{}
		gb := &gateCaller{gate: make(chan struct{})}
		a := capnp.NewPromise(capnp.Method{}, ca)
		b := capnp.NewPromise(capnp.Method{}, gb)
		c1 := make(chan struct{})
		go func() { b.Answer().PipelineSend(context.Background(), pathOps(true), capnp.Send{}); close(c1) }()
		if !waitUntil(func() bool { return atomic.LoadInt32(&gb.entered) == 1 }) {
			return "setup-failed"
		}
		jb := make(chan struct{})
		go func() { b.Join(a.Answer()); close(jb) }()
		time.Sleep(30 * time.Millisecond) // Join is waiting for call 1 now
		c2 := make(chan error, 1)
		go func() {
			ctx, cancel := context.WithTimeout(context.Background(), 3*time.Second)
			defer cancel()
			ans, rel := b.Answer().PipelineSend(ctx, pathOps(true), capnp.Send{})
			_, err := ans.Struct()
			rel()
			c2 <- err
		}()
		time.Sleep(30 * time.Millisecond)
		gb.gate <- struct{}{} // call 1 yields: the Join completes
		select {
		case <-jb:
		case <-time.After(2 * time.Second):
			return "join-does-not-finish"
		}
		<-c1
		res := "ok"
		select {
		case err := <-c2:
			if err == nil || !strings.Contains(err.Error(), "recHook") {
				res = "call-during-join-not-answered-by-the-parent's-caller"
			}
		case <-time.After(4 * time.Second):
			res = "call-during-join-blocked"
		}
		if n := atomic.LoadInt32(&ca.n); res == "ok" && n != 1 {
			res = "parent's-caller-saw-" + strconv.Itoa(int(n)) + "-calls-want-1"
		}
		if n := atomic.LoadInt32(&gb.entered); res == "ok" && n != 1 {
			res = "child's-caller-saw-" + strconv.Itoa(int(n)) + "-calls-want-1"
		}
		ha, hb := &countHook{}, &countHook{}
		r, _ := resultWithCaps(ha, hb)
		a.Fulfill(r)
		a.ReleaseClients()
		b.ReleaseClients()
		return res
	})
}

// execJoinNested: z <- a <- b.  a and b each have a call inside their callers; a.Join(z) waits for a's call; b.Join(a)
// starts while a is pending join; a call Y is made on b while b is pending join.  a's call yields (a joins z), b's
// call yields (b joins z), z is fulfilled: Y must be delivered exactly once and everything must return.
func execJoinNested() string {
	return timed(10*time.Second, func() string {
		cz := &recCaller{}
		ga := &gateCaller{gate: make(chan struct{})}
		gb := &gateCaller{gate: make(chan struct{})}
		z := capnp.NewPromise(capnp.Method{}, cz)
		a := capnp.NewPromise(capnp.Method{}, ga)
		b := capnp.NewPromise(capnp.Method{}, gb)
		ca, cb := make(chan struct{}), make(chan struct{})
		go func() { a.Answer().PipelineSend(context.Background(), pathOps(true), capnp.Send{}); close(ca) }()
		go func() { b.Answer().PipelineSend(context.Background(), pathOps(true), capnp.Send{}); close(cb) }()
		if !waitUntil(func() bool { return atomic.LoadInt32(&ga.entered) == 1 && atomic.LoadInt32(&gb.entered) == 1 }) {
			return "setup-failed"
		}
		ja, jb := make(chan struct{}), make(chan struct{})
		go func() { a.Join(z.Answer()); close(ja) }()
		time.Sleep(30 * time.Millisecond) // a is pending join
		go func() { b.Join(a.Answer()); close(jb) }()
		time.Sleep(30 * time.Millisecond) // b is pending join, waiting for a
		y := make(chan error, 1)
		go func() {
			ctx, cancel := context.WithTimeout(context.Background(), 4*time.Second)
			defer cancel()
			ans, rel := b.Answer().PipelineSend(ctx, pathOps(true), capnp.Send{})
			_, err := ans.Struct()
			rel()
			y <- err
		}()
		time.Sleep(30 * time.Millisecond)
		ga.gate <- struct{}{} // a's call yields: a joins z, b.Join goes on to wait for b's own call
		for _, c := range []chan struct{}{ca, ja} {
			select {
			case <-c:
			case <-time.After(2 * time.Second):
				return "first-join-does-not-finish"
			}
		}
		time.Sleep(30 * time.Millisecond)
		gb.gate <- struct{}{}
		for _, c := range []chan struct{}{cb, jb} {
			select {
			case <-c:
			case <-time.After(2 * time.Second):
				return "second-join-does-not-finish"
			}
		}
		hx, hb := &countHook{}, &countHook{}
		r, _ := resultWithCaps(hx, hb)
		z.Fulfill(r)
		res := "ok"
		select {
		case <-y:
			if n := atomic.LoadInt32(&cz.n) + atomic.LoadInt32(&hx.n); n != 1 {
				res = "call-made-during-pending-join-delivered-" + strconv.Itoa(int(n)) + "-times"
			}
		case <-time.After(5 * time.Second):
			res = "call-made-during-pending-join-blocked"
		}
		a.ReleaseClients()
		b.ReleaseClients()
		z.ReleaseClients()
		return res
	})
}

// countReturner counts what a PipelineRecv does with its Recv
type countReturner struct{ returns, allocs int32 }

func (c *countReturner) AllocResults(sz capnp.ObjectSize) (capnp.Struct, error) {
	atomic.AddInt32(&c.allocs, 1)
	_, seg, err := capnp.NewMessage(capnp.SingleSegment(nil))
	if err != nil {
		return capnp.Struct{}, err
	}
	return capnp.NewStruct(seg, sz)
}
func (c *countReturner) Return(error) { atomic.AddInt32(&c.returns, 1) }

// execRecvPending: "promise recvpending <cancelled 0|1>": an incoming pipelined call (PipelineRecv) arrives while the
// promise is pending resolution (Fulfill waits for a call still inside the caller), with a live or an already
// cancelled context.  Its Returner must be returned exactly once and its arguments released exactly once.
func execRecvPending(cancelled bool) string {
	return timed(8*time.Second, func() string {
		ga := &gateCaller{gate: make(chan struct{})}
		a := capnp.NewPromise(capnp.Method{}, ga)
		go a.Answer().PipelineSend(context.Background(), pathOps(true), capnp.Send{})
		if !waitUntil(func() bool { return atomic.LoadInt32(&ga.entered) == 1 }) {
			return "setup-failed"
		}
		hx, hb := &countHook{}, &countHook{}
		res, _ := resultWithCaps(hx, hb)
		fa := make(chan struct{})
		go func() { a.Fulfill(res); close(fa) }()
		time.Sleep(20 * time.Millisecond) // pending resolution
		ctx, cancel := context.WithCancel(context.Background())
		if cancelled {
			cancel()
		}
		defer cancel()
		ret := &countReturner{}
		var released int32
		done := make(chan struct{})
		go func() {
			a.Answer().PipelineRecv(ctx, pathOps(true), capnp.Recv{ReleaseArgs: func() { atomic.AddInt32(&released, 1) }, Returner: ret})
			close(done)
		}()
		time.Sleep(20 * time.Millisecond)
		ga.gate <- struct{}{}
		<-fa
		select {
		case <-done:
		case <-time.After(3 * time.Second):
			return "PipelineRecv-blocked"
		}
		time.Sleep(10 * time.Millisecond)
		out := "ok"
		if n := atomic.LoadInt32(&ret.returns); n != 1 {
			out = "Returner.Return-called-" + strconv.Itoa(int(n)) + "-times"
		} else if n := atomic.LoadInt32(&released); n != 1 {
			out = "ReleaseArgs-called-" + strconv.Itoa(int(n)) + "-times"
		}
		a.ReleaseClients()
		return out
	})
}

// execJoinRel: "promise joinrel <clients> <seq>": B is joined onto A; pipelined clients were handed out from A
// (clients&1) and from B (clients&2) before the join; A is fulfilled with a result holding capability X.  seq is a
// string over a / b (ReleaseClients on A / B, repeats are harmless by contract) and x / y (a call through the client
// from A / B).  The clients stay usable until every promise of the chain has released; afterwards they are dead, and
// once the result message and the harness have let go X is shut down exactly once.
func execJoinRel(t []string) string {
	return timed(8*time.Second, func() string {
		which, _ := strconv.Atoi(t[0])
		a := capnp.NewPromise(capnp.Method{}, &recCaller{})
		b := capnp.NewPromise(capnp.Method{}, &recCaller{})
		var ca, cb *capnp.Client
		if which&1 != 0 {
			ca = a.Answer().Field(0, nil).Client()
		}
		if which&2 != 0 {
			cb = b.Answer().Field(0, nil).Client()
		}
		b.Join(a.Answer())
		hx, hb := &countHook{}, &countHook{}
		r, msg := resultWithCaps(hx, hb)
		a.Fulfill(r)
		relA, relB := false, false
		calls := int32(0)
		for _, c := range t[1] {
			switch c {
			case 'a':
				a.ReleaseClients()
				relA = true
			case 'b':
				b.ReleaseClients()
				relB = true
			case 'x', 'y':
				cl := ca
				if c == 'y' {
					cl = cb
				}
				if cl == nil {
					continue
				}
				live := !(relA && relB)
				if cl.IsValid() != live {
					return "pipelined-client-valid=" + strconv.FormatBool(cl.IsValid()) + "-want-" + strconv.FormatBool(live) + "-at-" + string(c)
				}
				if live {
					cl.SendCall(context.Background(), capnp.Send{})
					calls++
					if atomic.LoadInt32(&hx.n) != calls {
						return "call-through-pipelined-client-not-delivered-at-" + string(c)
					}
				}
			default:
				return "bad-op"
			}
		}
		a.ReleaseClients()
		b.ReleaseClients()
		if (ca != nil && ca.IsValid()) || (cb != nil && cb.IsValid()) {
			return "pipelined-client-alive-after-every-ReleaseClients"
		}
		msg.Reset(nil)
		if n := atomic.LoadInt32(&hx.shutdowns); n != 1 {
			return "result-capability-shut-down-" + strconv.Itoa(int(n)) + "-times-want-1"
		}
		return "ok"
	})
}

// execJoinSeq: "promise joinseq <op,op,...>": n (NewPromise), c<i> (promise i's Answer().Field(0).Client()), j<c>:<p>
// (c.Join(p.Answer())), f<i> (Fulfill), r<i> (ReleaseClients).  After every op: the op's result (for c: which of the
// pipelined clients handed out so far it returned, k<index in order of first appearance>, or "res" for the capability
// found in the result) and, per pipelined client handed out so far, whether it is still valid.
func execJoinSeq(script string) string {
	return timed(10*time.Second, func() string {
		var ps []*capnp.Promise
		var clients []*capnp.Client
		var results []*capnp.Message
		var out []string
		atoi := func(s string) int { n, _ := strconv.Atoi(s); return n }
		for _, op := range strings.Split(script, ",") {
			res := "-"
			if op == "" {
				return "bad-op"
			}
			switch op[0] {
			case 'n':
				ps = append(ps, capnp.NewPromise(capnp.Method{}, &recCaller{}))
			case 'c':
				i := atoi(op[1:])
				if i >= len(ps) {
					return strings.Join(append(out, op+":invalid"), ";")
				}
				cl := ps[i].Answer().Field(0, nil).Client()
				res = ""
				for _, m := range results {
					if len(m.CapTable) > 0 && m.CapTable[0] == cl {
						res = "res"
					}
				}
				if res == "" {
					idx := -1
					for k, c := range clients {
						if c == cl {
							idx = k
						}
					}
					if idx < 0 {
						clients = append(clients, cl)
						idx = len(clients) - 1
					}
					res = "k" + strconv.Itoa(idx)
				}
			case 'j':
				f := strings.Split(op[1:], ":")
				if len(f) != 2 || atoi(f[0]) >= len(ps) || atoi(f[1]) >= len(ps) {
					return strings.Join(append(out, op+":invalid"), ";")
				}
				ps[atoi(f[0])].Join(ps[atoi(f[1])].Answer())
			case 'f':
				i := atoi(op[1:])
				if i >= len(ps) {
					return strings.Join(append(out, op+":invalid"), ";")
				}
				r, msg := resultWithCaps(&countHook{}, &countHook{})
				results = append(results, msg)
				ps[i].Fulfill(r)
			case 'r':
				i := atoi(op[1:])
				if i >= len(ps) {
					return strings.Join(append(out, op+":invalid"), ";")
				}
				ps[i].ReleaseClients()
			default:
				return "bad-op"
			}
			live := make([]byte, len(clients))
			for k, c := range clients {
				live[k] = '0'
				if c.IsValid() {
					live[k] = '1'
				}
			}
			out = append(out, op+":"+res+":"+string(live))
		}
		return strings.Join(out, ";")
	})
}

// joinSeq: a sequence of operations that neither misuses the API nor blocks (the generator mirrors only which promise
// is unresolved / joined / resolved and where each chain ends)
func joinSeq(r *lib.Rng, n int) string {
	var ops []string
	var root []int
	var joined, resolved []bool
	// a few promises to begin with (chains of two hops need three)
	for k := 2 + r.Intn(3); k > 0; k-- {
		ops = append(ops, "n")
		root = append(root, len(root))
		joined = append(joined, false)
		resolved = append(resolved, false)
	}
	n += len(ops)
	for len(ops) < n {
		np := len(root)
		switch t := r.Intn(10); {
		case np == 0 || (t == 0 && np < 5 && r.Bool()):
			ops = append(ops, "n")
			root = append(root, np)
			joined = append(joined, false)
			resolved = append(resolved, false)
		case t < 4:
			ops = append(ops, "c"+strconv.Itoa(r.Intn(np)))
		case t < 6:
			c, p := r.Intn(np), r.Intn(np)
			if joined[c] || resolved[c] || root[p] == c {
				continue
			}
			ops = append(ops, "j"+strconv.Itoa(c)+":"+strconv.Itoa(p))
			l := root[p]
			if resolved[l] {
				resolved[c] = true
			} else {
				joined[c] = true
				for x := range root {
					if root[x] == c {
						root[x] = l
					}
				}
			}
		case t < 7:
			i := r.Intn(np)
			if joined[i] || resolved[i] {
				continue
			}
			ops = append(ops, "f"+strconv.Itoa(i))
			resolved[i] = true
		default:
			i := r.Intn(np)
			if !resolved[root[i]] {
				continue
			}
			ops = append(ops, "r"+strconv.Itoa(i))
		}
	}
	// wind down: resolve every chain, every promise releases (some twice), in a random order
	for i := range root {
		if !joined[i] && !resolved[i] {
			ops = append(ops, "f"+strconv.Itoa(i))
			resolved[i] = true
		}
	}
	order := make([]int, len(root))
	for i := range order {
		order[i] = i
	}
	for i := len(order) - 1; i > 0; i-- {
		j := r.Intn(i + 1)
		order[i], order[j] = order[j], order[i]
	}
	for _, i := range order {
		ops = append(ops, "r"+strconv.Itoa(i))
		if r.Intn(4) == 0 {
			ops = append(ops, "r"+strconv.Itoa(i))
		}
	}
	return strings.Join(ops, ",")
}

func genC11(rec *lib.Rec, r *lib.Rng, thorough bool) {
	if Shard == 0 {
		rec.Op("S", "promise proxyrace", true)
		rec.Op("S", "promise joinpending", true)
		rec.Op("S", "promise joinchain", true)
		rec.Op("S", "promise joininflight", true)
		rec.Op("S", "promise fulfillinflight", true)
		rec.Op("S", "promise joinnested", true)
		rec.Op("S", "promise recvpending 0", true)
		rec.Op("S", "promise recvpending 1", true)
		for which := 0; which <= 3; which++ {
			for _, seq := range []string{"ab", "ba", "xbyaxy", "bbxya", "aaybx", "xybbaaxy", "bxbaybx", "yabab", "b", "a", ""} {
				rec.Op("S", "promise joinrel "+strconv.Itoa(which)+" "+seq, true)
			}
		}
		for _, pcl := range []string{"0", "1"} {
			for cc := 0; cc <= 3; cc++ {
				rec.Op("S", "promise join "+pcl+" "+strconv.Itoa(cc), true)
			}
		}
	}
	n := 600
	if thorough {
		n = 40000
	}
	n /= Shards
	for i := 0; i < n; i++ {
		k := 2 + r.Intn(10)
		ops := make([]string, k)
		for j := range ops {
			ops[j] = promiseOps[r.Intn(len(promiseOps))]
		}
		rec.Op("M", "promise script "+strings.Join(ops, ","), true)
		if i%2 == 0 {
			rec.Op("M", "promise joinseq "+joinSeq(r, 4+r.Intn(16)), true)
		}
		if i%20 == 0 {
			rec.Op("S", "promise stress "+strconv.Itoa(r.Intn(1000000))+" "+strconv.Itoa(r.Pick(2, 4, 8))+" "+strconv.Itoa(r.Pick(5, 20, 100)), true)
			rec.Count("stress")
		}
	}
}
