package main

import (
	"bytes"
	"encoding/binary"
	"io"
	"runtime"
	"runtime/debug"
	"strconv"
	"strings"

	capnp "capnproto.org/go/capnp/v3"
	"verifharness/lib"
)

func msgSegs(m *capnp.Message) (string, bool) {
	n := m.NumSegments()
	var parts []string
	for i := int64(0); i < n; i++ {
		s, err := m.Segment(capnp.SegmentID(i))
		if err != nil {
			return "", false
		}
		parts = append(parts, lib.Hex(s.Data()))
	}
	return strings.Join(parts, ","), true
}

func decodeAllImpl(d *capnp.Decoder) string {
	var sb strings.Builder
	for i := 0; i < 1<<16; i++ {
		m, err := d.Decode()
		if err == io.EOF {
			sb.WriteString("eof")
			return sb.String()
		}
		if err != nil {
			sb.WriteString("err")
			return sb.String()
		}
		s, ok := msgSegs(m) // read out before the next Decode (buffer reuse)
		if !ok {
			sb.WriteString("err")
			return sb.String()
		}
		sb.WriteString("m:" + s + ";")
	}
	return "blocked"
}

func execFrame(t []string) string {
	switch {
	case len(t) == 2 && (t[0] == "marshal" || t[0] == "encode"):
		segs, ok := parseSegs(t[1])
		if !ok {
			return "bad-op"
		}
		msg := &capnp.Message{Arena: capnp.MultiSegment(segs)}
		if t[0] == "marshal" {
			b, err := msg.Marshal()
			if err != nil {
				return "err"
			}
			return "ok " + lib.Hex(b)
		}
		var buf bytes.Buffer
		if err := capnp.NewEncoder(&buf).Encode(msg); err != nil {
			return "err"
		}
		return "ok " + lib.Hex(buf.Bytes())
	case len(t) == 5 && (t[0] == "decode" || t[0] == "decodepacked"):
		max, _ := strconv.ParseUint(t[1], 10, 64)
		b, err := lib.UnHex(t[4])
		if err != nil {
			return "bad-op"
		}
		rd := &chunkReader{data: b, chunks: parseNats(t[3])}
		var d *capnp.Decoder
		if t[0] == "decode" {
			d = capnp.NewDecoder(rd)
		} else {
			d = capnp.NewPackedDecoder(rd)
		}
		d.MaxMessageSize = max
		if t[2] == "1" {
			d.ReuseBuffer()
		}
		return decodeAllImpl(d)
	case len(t) == 2 && t[0] == "unmarshal":
		b, err := lib.UnHex(t[1])
		if err != nil {
			return "bad-op"
		}
		m, err := capnp.Unmarshal(exact(b))
		if err != nil {
			return "err"
		}
		s, ok := msgSegs(m)
		if !ok {
			return "err"
		}
		return "ok " + s
	case len(t) == 3 && t[0] == "allocbound":
		// a hostile header must not make Decode allocate more than MaxMessageSize (+ small constant)
		max, _ := strconv.ParseUint(t[1], 10, 64)
		b, err := lib.UnHex(t[2])
		if err != nil {
			return "bad-op"
		}
		old := debug.SetGCPercent(-1)
		defer debug.SetGCPercent(old)
		d := capnp.NewDecoder(bytes.NewReader(b))
		d.MaxMessageSize = max
		var m0, m1 runtime.MemStats
		runtime.ReadMemStats(&m0)
		d.Decode()
		runtime.ReadMemStats(&m1)
		lim := max
		if lim == 0 {
			lim = 64 << 20
		}
		if delta := m1.TotalAlloc - m0.TotalAlloc; delta > lim+16384 {
			return "over " + strconv.FormatUint(delta, 10)
		}
		return "ok"
	}
	return "bad-op"
}

func genFrameMsg(r *lib.Rng) [][]byte {
	n := r.Pick(1, 1, 1, 2, 2, 3, 4, 5)
	segs := make([][]byte, n)
	for i := range segs {
		segs[i] = genData(r, 8*r.Pick(0, 1, 1, 2, 3, 8))
		if len(segs[i]) == 0 {
			segs[i] = []byte{}
		}
	}
	return segs
}

func genC14(rec *lib.Rec, r *lib.Rng, thorough bool) {
	genTranslatorStream(rec, r, map[bool]int{false: 2000, true: 50000}[thorough], map[string]bool{"streamHeaderSize": true, "Size_times": true})
	n := 1500
	if thorough {
		n = 80000
	}
	n /= Shards
	for i := 0; i < n; i++ {
		// encoder side
		m := genFrameMsg(r)
		rec.Op("M", "frame marshal "+segsStr(m), true)
		rec.Op("M", "frame encode "+segsStr(m), true)
		// a stream of messages written by the independent framer, read back whole and cut anywhere
		var stream []byte
		var bounds []int
		k := 1 + r.Intn(4)
		for j := 0; j < k; j++ {
			stream = append(stream, frame(genFrameMsg(r))...)
			bounds = append(bounds, len(stream))
		}
		max := r.Pick(0, 0, 8, 16, 24, 32, 40, 64, 128, 1<<20)
		reuse := strconv.Itoa(r.Intn(2))
		ch := natsStr(genChunks(r))
		rec.Op("S", "frame decode "+strconv.Itoa(max)+" "+reuse+" "+ch+" "+lib.Hex(stream), true)
		cut := r.Intn(len(stream) + 1)
		if r.Chance(1, 3) {
			cut = bounds[r.Intn(len(bounds))] + r.Pick(-8, -4, -1, 0, 0)
			if cut < 0 {
				cut = 0
			}
		}
		rec.Op("S", "frame decode 0 "+reuse+" "+ch+" "+lib.Hex(stream[:cut]), true)
		rec.Count("cut")
		// the same through the packed framing
		pk := packStream(stream)
		rec.Op("S", "frame decodepacked 0 "+reuse+" "+ch+" "+lib.Hex(pk), true)
		if len(pk) > 0 {
			rec.Op("S", "frame decodepacked 0 "+reuse+" "+ch+" "+lib.Hex(pk[:r.Intn(len(pk)+1)]), true)
		}
		// unmarshal of (possibly damaged) frames
		u := append([]byte(nil), stream[:bounds[0]]...)
		if r.Chance(1, 2) && len(u) > 0 {
			u[r.Intn(min(len(u), 16))] ^= byte(1 << uint(r.Intn(8)))
		}
		if r.Chance(1, 4) && len(u) > 0 {
			u = u[:r.Intn(len(u))]
		}
		rec.Op("M", "frame unmarshal "+lib.Hex(u), true)
		// hostile headers
		if i%4 == 0 {
			h := hostileHeader(r)
			mx := r.Pick(0, 8, 64, 4096, 1<<20)
			rec.Op("M", "frame decode "+strconv.Itoa(mx)+" "+reuse+" "+ch+" "+lib.Hex(h), true)
			rec.Op("S", "frame allocbound "+strconv.Itoa(mx)+" "+lib.Hex(h), true)
			rec.Op("M", "frame unmarshal "+lib.Hex(h), true)
			rec.Count("hostile-header")
		}
	}
}

// packStream packs with an independent word-level packer (zero / literal runs not used: every word
// is a tagged word; spec-valid, and decodable by any unpacker).
func packStream(b []byte) []byte {
	var out []byte
	for i := 0; i+8 <= len(b); i += 8 {
		var tag byte
		var nz []byte
		for k := 0; k < 8; k++ {
			if b[i+k] != 0 {
				tag |= 1 << uint(k)
				nz = append(nz, b[i+k])
			}
		}
		out = append(out, tag)
		out = append(out, nz...)
		if tag == 0 {
			out = append(out, 0)
		}
		if tag == 0xff {
			out = append(out, 0)
		}
	}
	return out
}

func hostileHeader(r *lib.Rng) []byte {
	put := func(b []byte, v uint32) []byte {
		var w [4]byte
		binary.LittleEndian.PutUint32(w[:], v)
		return append(b, w[:]...)
	}
	finish := func(b []byte) []byte {
		if len(b)%8 != 0 {
			b = append(b, 0, 0, 0, 0)
		}
		return append(b, r.Bytes(8*r.Intn(4))...)
	}
	switch r.Intn(6) {
	case 0:
		// many segments, all of them tiny: only the segment-count limit stands between the header and acceptance
		nseg := uint32(r.Pick(509, 510, 511, 512, 513, 514, 600, 777, 1022, 1023, 1024, 2000))
		b := put(nil, nseg)
		words := 0
		for i := 0; i <= int(nseg); i++ {
			sz := uint32(r.Pick(0, 0, 0, 1))
			words += int(sz)
			b = put(b, sz)
		}
		if len(b)%8 != 0 {
			b = append(b, 0, 0, 0, 0)
		}
		return append(b, r.Bytes(8*words)...)
	case 1:
		// individually legal segment sizes whose sum passes 4 GiB (and is small modulo 2^32 bytes)
		combos := [][]uint32{{0x10000000, 0x10000000}, {0x1fffffff, 1}, {0x1fffffff, 1, 1}, {0x1fffffff, 0x1fffffff, 0x1fffffff, 0x1fffffff, 0x1fffffff, 0x1fffffff, 0x1fffffff, 0x1fffffff, 8},
			{0x10000000, 0x10000000, 1}, {0x08000000, 0x08000000, 0x08000000, 0x08000000}, {0x10000001, 0x0fffffff}, {0x18000000, 0x08000002}}
		c := combos[r.Intn(len(combos))]
		b := put(nil, uint32(len(c)-1))
		for _, sz := range c {
			b = put(b, sz)
		}
		return finish(b)
	}
	nseg := uint32(r.Pick(0, 1, 2, 3, 510, 511, 512, 513, 514, 0xffff, 0x3ffffffe, 0x7fffffff, 0xffffffff))
	b := put(nil, nseg)
	cnt := int(nseg) + 1
	if cnt > 600 || cnt < 0 {
		cnt = r.Intn(6)
	}
	for i := 0; i < cnt; i++ {
		b = put(b, uint32(r.Pick(0, 1, 2, 0x1fffffff, 0x20000000, 0x7fffffff, 0x80000000, 0xffffffff, 0x10000, 8, 0x10000000, 0x0fffffff)))
	}
	return finish(b)
}
