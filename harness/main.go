// Command harness is the implementation side of the correspondence check.
//
//	harness gen <property> -seed N -tier quick|thorough -out DIR
//	    generates the property's op streams from the seed, executes each op on
//	    the real implementation in-process, writes DIR/ops.txt, DIR/impl.txt, DIR/meta.json
//	harness exec < ops      executes op lines (replay), printing one result per line
package main

import (
	"bufio"
	"flag"
	"fmt"
	"os"
	"path/filepath"
	"sort"
	"strings"

	"verifharness/lib"
)

// execLine runs one op line on the implementation.
func execLine(line string) string {
	t := strings.Fields(line)
	if len(t) == 0 {
		return "bad-op"
	}
	return lib.Guard(func() string {
		switch t[0] {
		case "case":
			return "case"
		case "gen":
			return execGen(t[1:])
		case "build":
			return execBuild(t[1:])
		case "pogs19":
			return execPogs19(t[1:])
		case "gen15":
			return execGen15(t[1:])
		case "rpc":
			return execRPC(t[1:])
		case "rpcgen":
			if len(t) != 3 || t[1] != "sched" {
				return "bad-op"
			}
			return execImportGen(t[2])
		case "embargo":
			if len(t) != 3 || t[1] != "sched" {
				return "bad-op"
			}
			return execEmbargo(t[2])
		case "rpcq":
			// the outbound half: the same scripted Conn, no bootstrap capability of its own (Model.RpcQ's domain)
			if len(t) != 3 || t[1] != "script" {
				return "bad-op"
			}
			return execRPCScript(t[2], false)
		case "server":
			return execServer(t[1:])
		case "promise":
			return execPromise(t[1:])
		case "cap":
			return execCap(t[1:])
		case "text":
			return execText(t[1:])
		case "frame":
			return execFrame(t[1:])
		case "read":
			return execRead(t[1:])
		case "packed":
			return execPacked(t[1:])
		}
		return "bad-op"
	})
}

// Shard / Shards: generators divide their case counts by Shards; each shard
// draws from its own fork of the seed.
var Shard, Shards = 0, 1

var generators = map[string]func(rec *lib.Rec, r *lib.Rng, thorough bool){
	"C13": genC13,
	"C10": genC10,
	"C06": genC06,
	"C07": genC07,
	"C08": genC08,
	"C09": genC09,
	"C11": genC11,
	"C15": genC15,
	"C19": genC19,
	"C12": genC12,
	"C04": func(rec *lib.Rec, r *lib.Rng, th bool) { genBuild(rec, r, th, "C04") },
	"C05": func(rec *lib.Rec, r *lib.Rng, th bool) { genBuild(rec, r, th, "C05") },
	"C16": func(rec *lib.Rec, r *lib.Rng, th bool) { genBuild(rec, r, th, "C16") },
	"C14": genC14,
	"C01": genC01,
	"C02": genC02,
	"C03": genC03,
	"C17": genC17,
	"C18": genC18,
	"C20": genC20,
	"GEN": func(rec *lib.Rec, r *lib.Rng, thorough bool) {
		genTranslatorStream(rec, r, map[bool]int{false: 2000, true: 100000}[thorough], nil)
	},
}

// runCorpus replays the minimised past failures and hand-picked boundary
// cases of ../corpus/<prop>/*.ops (lines "S|M <op>") before anything generated.
func runCorpus(rec *lib.Rec, prop string) {
	dir := os.Getenv("VERIF_CORPUS")
	if dir == "" {
		return
	}
	files, _ := filepath.Glob(filepath.Join(dir, prop, "*.ops"))
	sort.Strings(files)
	for _, f := range files {
		b, err := os.ReadFile(f)
		if err != nil {
			continue
		}
		for _, line := range strings.Split(string(b), "\n") {
			if len(line) > 2 && (line[0] == 'S' || line[0] == 'M') && line[1] == ' ' {
				rec.Op(line[:1], line[2:], true)
				rec.Count("corpus")
			}
		}
	}
}

func main() {
	if len(os.Args) < 2 {
		fmt.Fprintln(os.Stderr, "usage: harness gen|exec ...")
		os.Exit(2)
	}
	switch os.Args[1] {
	case "gen":
		fs := flag.NewFlagSet("gen", flag.ExitOnError)
		seed := fs.Uint64("seed", 1, "seed")
		tier := fs.String("tier", "quick", "tier")
		out := fs.String("out", "", "output dir")
		shard := fs.String("shard", "0/1", "shard i/n")
		fs.Parse(os.Args[3:])
		g, ok := generators[os.Args[2]]
		if !ok {
			fmt.Fprintln(os.Stderr, "no generator for", os.Args[2])
			os.Exit(2)
		}
		rec, err := lib.NewRec(*out, execLine)
		if err != nil {
			fmt.Fprintln(os.Stderr, err)
			os.Exit(2)
		}
		var si, sn uint64 = 0, 1
		fmt.Sscanf(*shard, "%d/%d", &si, &sn)
		Shard, Shards = int(si), int(sn)
		rec.Sync = map[string]bool{"C10": true, "C11": true, "C12": true, "C06": true, "C07": true, "C08": true, "C09": true}[os.Args[2]]
		if Shard == 0 {
			runCorpus(rec, os.Args[2])
		}
		g(rec, lib.NewRng(*seed).Fork(si), *tier == "thorough")
		if err := rec.Close(nil); err != nil {
			fmt.Fprintln(os.Stderr, err)
			os.Exit(2)
		}
	case "exec":
		sc := bufio.NewScanner(os.Stdin)
		sc.Buffer(make([]byte, 1<<20), 1<<28)
		w := bufio.NewWriter(os.Stdout)
		defer w.Flush()
		for sc.Scan() {
			line := sc.Text()
			if len(line) > 2 && (line[0] == 'S' || line[0] == 'M') && line[1] == ' ' {
				line = line[2:]
			}
			fmt.Fprintln(w, execLine(line))
		}
	}
}
