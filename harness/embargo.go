package main

import (
	"sort"
	"strconv"
	"strings"

	"verifharness/lib"
)

// ---- C06, ordering across promise resolution: "embargo sched <acts>" ----
//
// The scenario of Model.Embargo on a real Conn: the local vat bootstraps the peer (import 1), calls it passing its
// own capability 0 (c0, method "giveback"), and then follows the schedule, one letter per step:
//
//	P  a pipelined call on the result of c0 (before the Return)          R  the peer's Return: result = receiverHosted(export of cap 0)
//	A  an asynchronous direct call on the capability taken from the result (after the Return)
//	F  the peer forwards the oldest pipelined call it has not forwarded yet back to the export
//	D  the peer echoes the Disembargo
//
// Output: per step, the calls delivered to capability 0 during it, as the index of the call among the calls the
// application made (0 = first P/A), "+"-joined; the calls released by D are sorted (their order is not defined).
func execEmbargo(sched string) string {
	ops := []string{"lB", "pRQ0:boot:s1", "lC0:5:k0"}
	type span struct {
		act      byte
		from, to int // ops[from:to]
	}
	var spans []span
	calls := 0      // calls made by P / A so far: the n-th has harness call id n+1, tag 1001+n
	var pipes []int // indices of the pipelined calls, in order
	reflected := 0
	for i := 0; i < len(sched); i++ {
		from := len(ops)
		switch sched[i] {
		case 'P':
			ops = append(ops, "lP0:0:0")
			pipes = append(pipes, calls)
			calls++
		case 'R':
			ops = append(ops, "pRQ0:ok:rX0", "lH0:0")
		case 'A':
			ops = append(ops, "lA1:0")
			calls++
		case 'F':
			if reflected >= len(pipes) {
				return "invalid"
			}
			tag := 1001 + pipes[reflected]
			reflected++
			ops = append(ops, "pC"+strconv.Itoa(tag)+":e0:0", "pF"+strconv.Itoa(tag)+":0")
		case 'D':
			ops = append(ops, "pDr0:e0")
		default:
			return "bad-op"
		}
		spans = append(spans, span{sched[i], from, len(ops)})
	}
	trace := execRPCScript(strings.Join(ops, ","), true)
	steps := strings.Split(trace, ";")
	var out []string
	for _, sp := range spans {
		var got []int
		for k := sp.from; k < sp.to && k < len(steps); k++ {
			for _, tok := range strings.Fields(steps[k]) {
				// a delivery to capability 0: "@k0.m<method>.t<tag>" (the first token of a step is glued to the op by ':')
				j := strings.Index(tok, "@k0.")
				if j < 0 {
					continue
				}
				f := strings.Split(tok[j:], ".")
				if len(f) == 3 && strings.HasPrefix(f[2], "t") {
					if tg, err := strconv.Atoi(f[2][1:]); err == nil {
						got = append(got, tg-1001)
					}
				}
			}
		}
		if sp.act == 'D' {
			sort.Ints(got)
		}
		strs := make([]string, len(got))
		for i, g := range got {
			strs[i] = strconv.Itoa(g)
		}
		out = append(out, string(sp.act)+":"+strings.Join(strs, "+"))
	}
	if strings.Contains(trace, "!") || strings.Contains(trace, "blocked") {
		out = append(out, "!trace:"+trace)
	}
	return strings.Join(out, ";")
}

// embargoSchedule: a valid schedule (what Model.Embargo enables), n steps
func embargoSchedule(r *lib.Rng, n int) string {
	var b []byte
	returned, embargoed := false, false
	nPipe, reflected := 0, 0
	for len(b) < n {
		switch r.Intn(6) {
		case 0, 1:
			if !returned && nPipe < 6 {
				b = append(b, 'P')
				nPipe++
			} else if returned {
				b = append(b, 'A')
			}
		case 2:
			if !returned {
				b = append(b, 'R')
				returned = true
				embargoed = nPipe > 0
			}
		case 3:
			if returned {
				b = append(b, 'A')
			}
		case 4:
			if returned && reflected < nPipe {
				b = append(b, 'F')
				reflected++
			}
		case 5:
			if returned && embargoed && reflected == nPipe {
				b = append(b, 'D')
				embargoed = false
			}
		}
	}
	return string(b)
}
