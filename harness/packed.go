package main

import (
	"bufio"
	"bytes"
	"io"
	"strconv"
	"strings"

	capnp "capnproto.org/go/capnp/v3"
	"capnproto.org/go/capnp/v3/verifx"
	"verifharness/lib"
)

// chunkReader delivers its data in the given chunk sizes (cyclically).
type chunkReader struct {
	data   []byte
	chunks []int
	k      int
}

func (c *chunkReader) Read(p []byte) (int, error) {
	if len(c.data) == 0 {
		return 0, io.EOF
	}
	n := 1
	if len(c.chunks) > 0 {
		n = c.chunks[c.k%len(c.chunks)]
		c.k++
	}
	if n < 1 {
		n = 1
	}
	if n > len(p) {
		n = len(p)
	}
	if n > len(c.data) {
		n = len(c.data)
	}
	copy(p, c.data[:n])
	c.data = c.data[n:]
	return n, nil
}

func parseNats(s string) []int {
	if s == "-" {
		return nil
	}
	var out []int
	for _, t := range strings.Split(s, ",") {
		n, _ := strconv.Atoi(t)
		out = append(out, n)
	}
	return out
}

func natsStr(xs []int) string {
	if len(xs) == 0 {
		return "-"
	}
	var sb strings.Builder
	for i, x := range xs {
		if i > 0 {
			sb.WriteByte(',')
		}
		sb.WriteString(strconv.Itoa(x))
	}
	return sb.String()
}

func okHex(b []byte, err error) string {
	if err != nil {
		return "err"
	}
	return "ok " + lib.Hex(b)
}

// streamWords reads with ReadWord until an error; io.EOF is the clean end.
func streamWords(data []byte, chunks []int) string {
	bufsz := 16
	if len(chunks) > 0 && chunks[0] > 16 {
		bufsz = chunks[0]
	}
	r := verifx.NewPackedReader(bufio.NewReaderSize(&chunkReader{data: data, chunks: chunks}, bufsz))
	var out []byte
	var w [8]byte
	for i := 0; i < 1<<24; i++ {
		err := r.ReadWord(w[:])
		if err == io.EOF {
			return "ok " + lib.Hex(out)
		}
		if err != nil {
			return "err"
		}
		out = append(out, w[:]...)
	}
	return "blocked"
}

// streamRead reads with Read in the given read sizes.
func streamRead(data []byte, chunks []int) string {
	r := verifx.NewPackedReader(bufio.NewReaderSize(&chunkReader{data: data, chunks: chunks}, 16))
	var out []byte
	for i := 0; i < 1<<24; i++ {
		sz := 8
		if len(chunks) > 0 {
			sz = chunks[(i+1)%len(chunks)]
		}
		if sz < 1 {
			sz = 1
		}
		p := make([]byte, sz)
		n, err := r.Read(p)
		out = append(out, p[:n]...)
		if err == io.EOF {
			return "ok " + lib.Hex(out)
		}
		if err != nil {
			return "err"
		}
	}
	return "blocked"
}

func execPacked(t []string) string {
	if len(t) < 2 {
		return "bad-op"
	}
	in, err := lib.UnHex(t[1])
	if err != nil {
		return "bad-op"
	}
	switch t[0] {
	case "pack":
		return "ok " + lib.Hex(verifx.Pack(nil, in))
	case "unpack", "strict":
		// decode into a dirty buffer with spare capacity after a prefix: the result
		// must be prefix ++ decoded bytes whatever the buffer held before
		h := 0
		for _, c := range in {
			h = h*31 + int(c)
		}
		pre := (h & 0x7fffffff) % 3 * 5
		dirty := bytes.Repeat([]byte{0xaa}, pre+((h>>3)&0x7fffffff)%4096)
		out, err := verifx.Unpack(dirty[:pre], in)
		if err == nil && (len(out) < pre || !bytes.Equal(out[:pre], bytes.Repeat([]byte{0xaa}, pre))) {
			return "mismatch-prefix"
		}
		if err != nil {
			return "err"
		}
		return okHex(out[pre:], nil)
	case "stream", "strictstream":
		return streamWords(in, parseNats(t[2]))
	case "streamread":
		return streamRead(in, parseNats(t[2]))
	case "rt": // Unpack(Pack(x)) == x, one shot and streaming; also an independent decoder accepts it
		p := verifx.Pack(nil, in)
		u, err := verifx.Unpack(nil, p)
		if err != nil || !bytes.Equal(u, in) {
			return "mismatch"
		}
		return "ok"
	case "msgrt": // public API: MarshalPacked / UnmarshalPacked / packed Decoder on a one-segment message
		return packedMsgRT(in, parseNats(t[2]))
	}
	return "bad-op"
}

// packedMsgRT wraps the payload as a single-segment message and sends it
// through MarshalPacked -> UnmarshalPacked and NewPackedEncoder -> NewPackedDecoder.
func packedMsgRT(payload []byte, chunks []int) string {
	if len(payload) == 0 || len(payload)%8 != 0 {
		return "ok"
	}
	msg := &capnp.Message{Arena: capnp.SingleSegment(append([]byte(nil), payload...))}
	pk, err := msg.MarshalPacked()
	if err != nil {
		return "err"
	}
	m2, err := capnp.UnmarshalPacked(pk)
	if err != nil {
		return "mismatch"
	}
	s, err := m2.Segment(0)
	if err != nil || !bytes.Equal(s.Data(), payload) {
		return "mismatch"
	}
	var buf bytes.Buffer
	enc := capnp.NewPackedEncoder(&buf)
	if err := enc.Encode(msg); err != nil {
		return "err"
	}
	if err := enc.Encode(msg); err != nil {
		return "err"
	}
	dec := capnp.NewPackedDecoder(&chunkReader{data: buf.Bytes(), chunks: chunks})
	for i := 0; i < 2; i++ {
		m3, err := dec.Decode()
		if err != nil {
			return "mismatch"
		}
		s, err := m3.Segment(0)
		if err != nil || !bytes.Equal(s.Data(), payload) {
			return "mismatch"
		}
	}
	if _, err := dec.Decode(); err != io.EOF {
		return "mismatch"
	}
	return "ok"
}

var runLens = []int{0, 1, 1, 2, 3, 7, 253, 254, 255, 256, 257, 509, 510, 511, 600}

// genPayload builds a word-aligned payload out of zero runs, dense runs
// (words with at most one zero byte) and sparse random words.
func genPayload(r *lib.Rng, maxSegs int, big bool) []byte {
	var out []byte
	nseg := 1 + r.Intn(maxSegs)
	for s := 0; s < nseg; s++ {
		n := runLens[r.Intn(7)]
		if big && r.Chance(1, 3) {
			n = runLens[r.Intn(len(runLens))]
		}
		switch r.Intn(4) {
		case 0: // zero words
			out = append(out, make([]byte, 8*n)...)
		case 1: // dense words: no zero or exactly one zero byte
			twoZeros := r.Chance(1, 4) // per run, so that literal runs beyond 255 words occur
			for i := 0; i < n; i++ {
				w := r.Bytes(8)
				for j := range w {
					if w[j] == 0 {
						w[j] = 1
					}
				}
				switch r.Intn(4) {
				case 0:
					w[r.Intn(8)] = 0
				case 1:
					if twoZeros && r.Chance(1, 8) { // two zeros: ends a literal run
						w[0], w[7] = 0, 0
					}
				}
				out = append(out, w...)
			}
		case 2: // sparse words
			for i := 0; i < n%9; i++ {
				w := make([]byte, 8)
				for k := r.Intn(4); k > 0; k-- {
					w[r.Intn(8)] = byte(1 + r.Intn(255))
				}
				out = append(out, w...)
			}
		case 3: // arbitrary
			out = append(out, r.Bytes(8*(n%5))...)
		}
	}
	return out
}

// genPackedInput yields packed strings: valid ones, truncations, byte mutations, raw.
func genPackedInput(r *lib.Rng, big bool) ([]byte, string) {
	switch r.Intn(10) {
	case 0, 1, 2:
		return verifx.Pack(nil, genPayload(r, 4, big)), "valid"
	case 3, 4, 5:
		p := verifx.Pack(nil, genPayload(r, 4, big))
		if len(p) > 0 {
			p = p[:r.Intn(len(p))]
		}
		return p, "truncated"
	case 6, 7:
		p := verifx.Pack(nil, genPayload(r, 3, false))
		for k := 1 + r.Intn(2); k > 0 && len(p) > 0; k-- {
			p[r.Intn(len(p))] = byte(r.Pick(0, 0xff, 1, 0x80, r.Intn(256)))
		}
		return p, "mutated"
	default:
		n := r.Intn(40)
		p := make([]byte, n)
		for i := range p {
			p[i] = byte(r.Pick(0, 0, 0xff, 0xff, 1, 2, 3, 8, 0x55, r.Intn(256)))
		}
		return p, "raw"
	}
}

var chunkings = [][]int{{1}, {2}, {3}, {5}, {7}, {8}, {9}, {17}, {4096}, {1, 9}, {16, 1}, {9, 8, 1}}

func genChunks(r *lib.Rng) []int {
	if r.Chance(2, 3) {
		return chunkings[r.Intn(len(chunkings))]
	}
	n := 1 + r.Intn(5)
	c := make([]int, n)
	for i := range c {
		c[i] = 1 + r.Intn(20)
	}
	return c
}

func genC13(rec *lib.Rec, r *lib.Rng, thorough bool) {
	n := 1500
	if thorough {
		n = 60000
	}
	n /= Shards
	for i := 0; i < n; i++ {
		big := i%8 == 0
		x := genPayload(r, 5, big)
		hx := lib.Hex(x)
		nt := len(x) >= 16
		rec.Op("M", "packed pack "+hx, nt)
		rec.Op("S", "packed rt "+hx, nt)
		if i%4 == 0 {
			rec.Op("S", "packed msgrt "+hx+" "+natsStr(genChunks(r)), nt)
		}
		s, kind := genPackedInput(r, big)
		rec.Count(kind)
		hs := lib.Hex(s)
		nt = len(s) >= 3
		rec.Op("M", "packed unpack "+hs, nt)
		rec.Op("S", "packed strict "+hs, nt)
		ch := natsStr(genChunks(r))
		rec.Op("M", "packed stream "+hs+" "+ch, nt)
		rec.Op("S", "packed strictstream "+hs+" "+ch, nt)
		rec.Op("S", "packed streamread "+hs+" "+natsStr(genChunks(r)), nt)
	}
	if thorough && Shard == 0 {
		// exhaustive small scope: every tag x every count byte x 0..2 following bytes classes
		for tag := 0; tag < 256; tag++ {
			for cnt := 0; cnt < 256; cnt += 1 {
				for extra := 0; extra < 3; extra++ {
					s := []byte{byte(tag)}
					for b := 0; b < 8; b++ {
						if tag&(1<<uint(b)) != 0 {
							s = append(s, byte(b+1))
						}
					}
					s = append(s, byte(cnt))
					s = append(s, bytes.Repeat([]byte{7}, extra*8)...)
					hs := lib.Hex(s)
					rec.Op("S", "packed strict "+hs, true)
					rec.Op("S", "packed strictstream "+hs+" 9", true)
				}
			}
		}
	}
}
