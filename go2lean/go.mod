module go2lean

go 1.16
