// go2lean prototype: translates loop-free integer functions of a Go package to Lean 4
// definitions over Int with explicit wrap functions.
package main

import (
	"flag"
	"fmt"
	"go/ast"
	"go/constant"
	"go/importer"
	"go/parser"
	"go/token"
	"go/types"
	"math/big"
	"os"
	"path/filepath"
	"sort"
	"strings"
)

type tr struct {
	fset     *token.FileSet
	info     *types.Info
	pkg      *types.Package
	out      strings.Builder
	funcs    map[string]*ast.FuncDecl // key: Recv_name or name
	want     map[string]bool
	mayPanic map[string]bool
	structs  map[string]bool                 // struct types used (emitted as Lean structures)
	consts   map[types.Object]constant.Value // single-assignment locals with constant initialiser
	pending  []bind                          // hoisted may-panic calls of the statement being translated
	nvar     int
	cur      string // function being translated
	curPanic bool
}

type bind struct{ v, call string }

func fail(pos token.Pos, fset *token.FileSet, f string, a ...interface{}) {
	panic(fmt.Sprintf("%s: unsupported: %s", fset.Position(pos), fmt.Sprintf(f, a...)))
}

func basicOf(t types.Type) *types.Basic {
	b, _ := t.Underlying().(*types.Basic)
	return b
}

// wrapName returns the Lean wrap function for an integer type, "" for non-integers.
func wrapName(t types.Type) string {
	b := basicOf(t)
	if b == nil {
		return ""
	}
	switch b.Kind() {
	case types.Uint8:
		return "wrapU8"
	case types.Uint16:
		return "wrapU16"
	case types.Uint32:
		return "wrapU32"
	case types.Uint64, types.Uint, types.Uintptr:
		return "wrapU64"
	case types.Int8:
		return "wrapI8"
	case types.Int16:
		return "wrapI16"
	case types.Int32:
		return "wrapI32"
	case types.Int64, types.Int:
		return "wrapI64"
	}
	return ""
}

func isSigned(t types.Type) bool {
	b := basicOf(t)
	return b != nil && b.Info()&types.IsInteger != 0 && b.Info()&types.IsUnsigned == 0
}

func (t *tr) leanType(ty types.Type) string {
	if b := basicOf(ty); b != nil {
		if b.Info()&types.IsInteger != 0 {
			return "Int"
		}
		if b.Info()&types.IsBoolean != 0 {
			return "Bool"
		}
		if b.Info()&types.IsString != 0 {
			return "String"
		}
	}
	if n, ok := ty.(*types.Named); ok {
		if _, ok := n.Underlying().(*types.Struct); ok {
			t.structs[n.Obj().Name()] = true
			return n.Obj().Name()
		}
	}
	if tup, ok := ty.(*types.Tuple); ok {
		var parts []string
		for i := 0; i < tup.Len(); i++ {
			parts = append(parts, t.leanType(tup.At(i).Type()))
		}
		return "(" + strings.Join(parts, " × ") + ")"
	}
	panic("unsupported type " + ty.String())
}

func constStr(v constant.Value) string {
	switch v.Kind() {
	case constant.Int:
		s := v.ExactString()
		if strings.HasPrefix(s, "-") {
			return "(" + s + ")"
		}
		return s
	case constant.Bool:
		if constant.BoolVal(v) {
			return "true"
		}
		return "false"
	case constant.String:
		return fmt.Sprintf("%q", constant.StringVal(v))
	}
	panic("const kind")
}

// maskRuns decomposes a constant mask into maximal runs of set bits [lo,hi).
func maskRuns(m *big.Int) [][2]int {
	var runs [][2]int
	n := m.BitLen()
	i := 0
	for i < n {
		if m.Bit(i) == 0 {
			i++
			continue
		}
		lo := i
		for i < n && m.Bit(i) == 1 {
			i++
		}
		runs = append(runs, [2]int{lo, i})
	}
	return runs
}

func pow2(k int) string { return new(big.Int).Lsh(big.NewInt(1), uint(k)).String() }

func maskExpr(x string, m *big.Int) string {
	runs := maskRuns(m)
	if len(runs) == 0 {
		return "0"
	}
	var parts []string
	for _, r := range runs {
		e := x
		if r[0] > 0 {
			e = fmt.Sprintf("(%s / %s)", x, pow2(r[0]))
		}
		e = fmt.Sprintf("(%s %% %s)", e, pow2(r[1]-r[0]))
		if r[0] > 0 {
			e = fmt.Sprintf("(%s * %s)", e, pow2(r[0]))
		}
		parts = append(parts, e)
	}
	return "(" + strings.Join(parts, " + ") + ")"
}

func (t *tr) constOf(e ast.Expr) (constant.Value, bool) {
	tv, ok := t.info.Types[e]
	if ok && tv.Value != nil {
		return tv.Value, true
	}
	if id, ok := e.(*ast.Ident); ok {
		if v, ok := t.consts[t.info.Uses[id]]; ok {
			return v, true
		}
	}
	if p, ok := e.(*ast.ParenExpr); ok {
		return t.constOf(p.X)
	}
	return nil, false
}

func (t *tr) expr(e ast.Expr) string {
	if v, ok := t.constOf(e); ok {
		// typed constant: value already representable in its type
		return constStr(v)
	}
	switch e := e.(type) {
	case *ast.ParenExpr:
		return t.expr(e.X)
	case *ast.Ident:
		if e.Name == "true" || e.Name == "false" {
			return e.Name
		}
		if v, ok := t.consts[t.info.Uses[e]]; ok {
			return constStr(v)
		}
		return leanIdent(e.Name)
	case *ast.SelectorExpr:
		// struct field access
		if sel, ok := t.info.Selections[e]; ok && sel.Kind() == types.FieldVal {
			return fmt.Sprintf("%s.%s", t.expr(e.X), e.Sel.Name)
		}
		fail(e.Pos(), t.fset, "selector %s", e.Sel.Name)
	case *ast.UnaryExpr:
		switch e.Op {
		case token.NOT:
			return fmt.Sprintf("(!%s)", t.expr(e.X))
		case token.SUB:
			w := wrapName(t.info.TypeOf(e))
			return fmt.Sprintf("(%s (-%s))", w, t.expr(e.X))
		case token.XOR:
			// ^x on unsigned = max - x ; on signed = -x-1
			ty := t.info.TypeOf(e)
			if isSigned(ty) {
				return fmt.Sprintf("(-%s - 1)", t.expr(e.X))
			}
			return fmt.Sprintf("(%s (-%s - 1))", wrapName(ty), t.expr(e.X))
		}
		fail(e.Pos(), t.fset, "unary %s", e.Op)
	case *ast.BinaryExpr:
		return t.binary(e)
	case *ast.CallExpr:
		return t.call(e)
	case *ast.CompositeLit:
		st, ok := t.info.TypeOf(e).Underlying().(*types.Struct)
		if !ok {
			fail(e.Pos(), t.fset, "composite literal of non-struct")
		}
		t.leanType(t.info.TypeOf(e))
		vals := map[string]string{}
		for i, el := range e.Elts {
			if kv, ok := el.(*ast.KeyValueExpr); ok {
				vals[kv.Key.(*ast.Ident).Name] = t.expr(kv.Value)
			} else {
				vals[st.Field(i).Name()] = t.expr(el)
			}
		}
		var parts []string
		for i := 0; i < st.NumFields(); i++ {
			f := st.Field(i)
			v, ok := vals[f.Name()]
			if !ok {
				v = t.zero(f.Type())
			}
			parts = append(parts, fmt.Sprintf("%s := %s", f.Name(), v))
		}
		return "{ " + strings.Join(parts, ", ") + " }"
	}
	fail(e.Pos(), t.fset, "expression %T", e)
	return ""
}

func (t *tr) zero(ty types.Type) string {
	if b := basicOf(ty); b != nil {
		if b.Info()&types.IsInteger != 0 {
			return "0"
		}
		if b.Info()&types.IsBoolean != 0 {
			return "false"
		}
	}
	if st, ok := ty.Underlying().(*types.Struct); ok {
		t.leanType(ty)
		var parts []string
		for i := 0; i < st.NumFields(); i++ {
			parts = append(parts, fmt.Sprintf("%s := %s", st.Field(i).Name(), t.zero(st.Field(i).Type())))
		}
		return "{ " + strings.Join(parts, ", ") + " }"
	}
	panic("zero of " + ty.String())
}

func leanIdent(s string) string {
	switch s {
	case "end", "at", "from", "to", "then", "do", "fun", "new", "open", "def", "match", "with", "in", "have", "show":
		return s + "'"
	}
	return s
}

func (t *tr) binary(e *ast.BinaryExpr) string {
	ty := t.info.TypeOf(e)
	xt := t.info.TypeOf(e.X)
	x, y := t.expr(e.X), t.expr(e.Y)
	w := wrapName(ty)
	switch e.Op {
	case token.ADD, token.SUB, token.MUL:
		op := map[token.Token]string{token.ADD: "+", token.SUB: "-", token.MUL: "*"}[e.Op]
		return fmt.Sprintf("(%s (%s %s %s))", w, x, op, y)
	case token.QUO, token.REM:
		if isSigned(ty) {
			f := "Int.tdiv"
			if e.Op == token.REM {
				f = "Int.tmod"
			}
			return fmt.Sprintf("(%s (%s %s %s))", w, f, x, y)
		}
		op := "/"
		if e.Op == token.REM {
			op = "%"
		}
		return fmt.Sprintf("(%s %s %s)", x, op, y)
	case token.SHL:
		if c, ok := t.constOf(e.Y); ok {
			k, _ := constant.Int64Val(c)
			return fmt.Sprintf("(%s (%s * %s))", w, x, pow2(int(k)))
		}
		return fmt.Sprintf("(%s (%s * 2 ^ (%s).toNat))", w, x, y)
	case token.SHR:
		if c, ok := t.constOf(e.Y); ok {
			k, _ := constant.Int64Val(c)
			return fmt.Sprintf("(%s / %s)", x, pow2(int(k)))
		}
		return fmt.Sprintf("(%s / 2 ^ (%s).toNat)", x, y)
	case token.AND, token.AND_NOT:
		if isSigned(ty) {
			fail(e.Pos(), t.fset, "bit op on signed type")
		}
		if c, ok := t.constOf(e.Y); ok {
			m, _ := new(big.Int).SetString(c.ExactString(), 10)
			if e.Op == token.AND {
				return maskExpr(x, m)
			}
			return fmt.Sprintf("(%s - %s)", x, maskExpr(x, m))
		}
		if e.Op == token.AND {
			return fmt.Sprintf("(band %s %s)", x, y)
		}
		return fmt.Sprintf("(bandnot %s %s)", x, y)
	case token.OR:
		if isSigned(ty) {
			fail(e.Pos(), t.fset, "bit op on signed type")
		}
		return fmt.Sprintf("(bor %s %s)", x, y)
	case token.XOR:
		return fmt.Sprintf("(bxor %s %s)", x, y)
	case token.EQL, token.NEQ, token.LSS, token.LEQ, token.GTR, token.GEQ:
		op := map[token.Token]string{token.EQL: "=", token.NEQ: "≠", token.LSS: "<", token.LEQ: "≤", token.GTR: ">", token.GEQ: "≥"}[e.Op]
		if b := basicOf(xt); b != nil && b.Info()&types.IsBoolean != 0 {
			if e.Op == token.EQL {
				return fmt.Sprintf("(%s == %s)", x, y)
			}
			return fmt.Sprintf("(%s != %s)", x, y)
		}
		if _, ok := xt.Underlying().(*types.Struct); ok {
			if e.Op == token.EQL {
				return fmt.Sprintf("(%s == %s)", x, y)
			}
			return fmt.Sprintf("(%s != %s)", x, y)
		}
		return fmt.Sprintf("(decide (%s %s %s))", x, op, y)
	case token.LAND:
		return fmt.Sprintf("(%s && %s)", x, y)
	case token.LOR:
		return fmt.Sprintf("(%s || %s)", x, y)
	}
	fail(e.Pos(), t.fset, "binary %s", e.Op)
	return ""
}

func (t *tr) call(e *ast.CallExpr) string {
	// conversion?
	if tv, ok := t.info.Types[e.Fun]; ok && tv.IsType() {
		w := wrapName(tv.Type)
		if w == "" {
			fail(e.Pos(), t.fset, "conversion to %s", tv.Type)
		}
		return fmt.Sprintf("(%s %s)", w, t.expr(e.Args[0]))
	}
	var name string
	var args []string
	switch f := e.Fun.(type) {
	case *ast.Ident:
		name = f.Name
	case *ast.SelectorExpr:
		sel, ok := t.info.Selections[f]
		if !ok || sel.Kind() != types.MethodVal {
			fail(e.Pos(), t.fset, "call of %s", f.Sel.Name)
		}
		recv := sel.Recv()
		if p, ok := recv.(*types.Pointer); ok {
			recv = p.Elem()
		}
		name = recv.(*types.Named).Obj().Name() + "_" + f.Sel.Name
		args = append(args, t.expr(f.X))
	default:
		fail(e.Pos(), t.fset, "call form")
	}
	if _, ok := t.funcs[name]; !ok {
		fail(e.Pos(), t.fset, "call to untranslated function %s", name)
	}
	t.want[name] = true
	for _, a := range e.Args {
		args = append(args, t.expr(a))
	}
	callStr := "(" + name + " " + strings.Join(args, " ") + ")"
	if t.mayPanic[name] {
		t.nvar++
		v := fmt.Sprintf("r%d'", t.nvar)
		t.pending = append(t.pending, bind{v, callStr})
		return v
	}
	return callStr
}

// flush wraps the continuation k in the binds hoisted while translating the
// current statement's expressions.
func (t *tr) flush(ind string, k string) string {
	out := ""
	for _, b := range t.pending {
		out += ind + fmt.Sprintf("Err.bind %s fun %s =>\n", b.call, b.v)
	}
	t.pending = nil
	return out + k
}

func (t *tr) pure(v string) string {
	if t.curPanic {
		return "(Except.ok " + v + ")"
	}
	return v
}

func isPanicCall(s ast.Stmt) (*ast.CallExpr, bool) {
	if es, ok := s.(*ast.ExprStmt); ok {
		if c, ok := es.X.(*ast.CallExpr); ok {
			if id, ok := c.Fun.(*ast.Ident); ok && id.Name == "panic" {
				return c, true
			}
		}
	}
	return nil, false
}

// assignedLater reports whether obj is assigned anywhere in the function body
// other than at its definition.
func (t *tr) assignedOnce(fd *ast.FuncDecl, obj types.Object) bool {
	n := 0
	ast.Inspect(fd.Body, func(nd ast.Node) bool {
		switch x := nd.(type) {
		case *ast.AssignStmt:
			for _, l := range x.Lhs {
				if id, ok := l.(*ast.Ident); ok {
					if t.info.Defs[id] == obj || t.info.Uses[id] == obj {
						n++
					}
				}
			}
		case *ast.IncDecStmt:
			if id, ok := x.X.(*ast.Ident); ok && t.info.Uses[id] == obj {
				n += 2
			}
		case *ast.UnaryExpr:
			if x.Op == token.AND {
				if id, ok := x.X.(*ast.Ident); ok && t.info.Uses[id] == obj {
					n += 2
				}
			}
		}
		return true
	})
	return n <= 1
}

// stmts translates a statement list in continuation style; every path must end in return/panic.
func (t *tr) stmts(list []ast.Stmt, ind string, fd *ast.FuncDecl) string {
	if len(list) == 0 {
		fail(fd.Pos(), t.fset, "control falls off the end of %s", t.cur)
	}
	s, rest := list[0], list[1:]
	if c, ok := isPanicCall(s); ok {
		msg := "panic"
		if v, ok := t.constOf(c.Args[0]); ok && v.Kind() == constant.String {
			msg = constant.StringVal(v)
		}
		return ind + fmt.Sprintf("(Except.error (Err.panic %q))", msg)
	}
	switch s := s.(type) {
	case *ast.ReturnStmt:
		v := t.ret(s)
		return t.flush(ind, ind+t.pure(v))
	case *ast.AssignStmt:
		if s.Tok != token.DEFINE && s.Tok != token.ASSIGN {
			fail(s.Pos(), t.fset, "assign op %s", s.Tok)
		}
		var lhs []string
		for _, l := range s.Lhs {
			id, ok := l.(*ast.Ident)
			if !ok {
				fail(s.Pos(), t.fset, "assignment to non-identifier")
			}
			if id.Name == "_" {
				lhs = append(lhs, "_")
			} else {
				lhs = append(lhs, leanIdent(id.Name))
			}
		}
		// constant propagation: x := <const> with x never reassigned
		if s.Tok == token.DEFINE && len(s.Lhs) == 1 && len(s.Rhs) == 1 {
			if v, ok := t.constOf(s.Rhs[0]); ok {
				id := s.Lhs[0].(*ast.Ident)
				if obj := t.info.Defs[id]; obj != nil && t.assignedOnce(fd, obj) {
					t.consts[obj] = v
				}
			}
		}
		var rhs string
		if len(s.Rhs) == 1 {
			rhs = t.expr(s.Rhs[0])
		} else {
			var parts []string
			for _, r := range s.Rhs {
				parts = append(parts, t.expr(r))
			}
			rhs = "(" + strings.Join(parts, ", ") + ")"
		}
		pat := lhs[0]
		if len(lhs) > 1 {
			pat = "(" + strings.Join(lhs, ", ") + ")"
		}
		pre := t.flush(ind, "")
		return pre + ind + fmt.Sprintf("let %s := %s\n", pat, rhs) + t.stmts(rest, ind, fd)
	case *ast.DeclStmt:
		gd := s.Decl.(*ast.GenDecl)
		out := ""
		for _, sp := range gd.Specs {
			vs, ok := sp.(*ast.ValueSpec)
			if !ok {
				fail(s.Pos(), t.fset, "declaration")
			}
			for i, n := range vs.Names {
				v := t.zero(t.info.TypeOf(n))
				if i < len(vs.Values) {
					v = t.expr(vs.Values[i])
				}
				out += t.flush(ind, "") + ind + fmt.Sprintf("let %s := %s\n", leanIdent(n.Name), v)
			}
		}
		return out + t.stmts(rest, ind, fd)
	case *ast.IfStmt:
		pre := ""
		if s.Init != nil {
			// `if x, ok := f(); cond {A} else {B}; rest`  ==  `x, ok := f(); if cond {A} else {B}; rest`
			// (sound because Lean lets shadow and the names are scoped to the if in Go)
			as, ok := s.Init.(*ast.AssignStmt)
			if !ok {
				fail(s.Pos(), t.fset, "if-init form")
			}
			cp := *s
			cp.Init = nil
			return t.stmts(append([]ast.Stmt{as, &cp}, rest...), ind, fd)
		}
		cond := t.expr(s.Cond)
		pre = t.flush(ind, "")
		thenB := append(append([]ast.Stmt{}, s.Body.List...), ifNotTerminated(s.Body.List, rest)...)
		var elseB []ast.Stmt
		switch el := s.Else.(type) {
		case nil:
			elseB = rest
		case *ast.BlockStmt:
			elseB = append(append([]ast.Stmt{}, el.List...), ifNotTerminated(el.List, rest)...)
		case *ast.IfStmt:
			elseB = append([]ast.Stmt{el}, rest...)
		}
		return pre + ind + fmt.Sprintf("if %s then\n", cond) + t.stmts(thenB, ind+"  ", fd) + "\n" + ind + "else\n" + t.stmts(elseB, ind+"  ", fd)
	case *ast.SwitchStmt:
		if s.Init != nil {
			fail(s.Pos(), t.fset, "switch with init")
		}
		var tag string
		pre := ""
		if s.Tag != nil {
			tag = t.expr(s.Tag)
			pre = t.flush(ind, "")
		}
		var deflt []ast.Stmt
		hasDefault := false
		var clauses []*ast.CaseClause
		for _, c := range s.Body.List {
			cc := c.(*ast.CaseClause)
			for _, b := range cc.Body {
				if br, ok := b.(*ast.BranchStmt); ok {
					fail(br.Pos(), t.fset, "branch statement in switch")
				}
			}
			if cc.List == nil {
				deflt = cc.Body
				hasDefault = true
			} else {
				clauses = append(clauses, cc)
			}
		}
		var chain func(i int, ind string) string
		chain = func(i int, ind string) string {
			if i == len(clauses) {
				body := rest
				if hasDefault {
					body = append(append([]ast.Stmt{}, deflt...), ifNotTerminated(deflt, rest)...)
				}
				return t.stmts(body, ind, fd)
			}
			cc := clauses[i]
			var conds []string
			for _, ce := range cc.List {
				if s.Tag != nil {
					conds = append(conds, fmt.Sprintf("decide (%s = %s)", tag, t.expr(ce)))
				} else {
					conds = append(conds, t.expr(ce))
				}
			}
			if len(t.pending) > 0 {
				fail(cc.Pos(), t.fset, "may-panic call in case expression")
			}
			body := append(append([]ast.Stmt{}, cc.Body...), ifNotTerminated(cc.Body, rest)...)
			return ind + fmt.Sprintf("if %s then\n", strings.Join(conds, " || ")) + t.stmts(body, ind+"  ", fd) + "\n" + ind + "else\n" + chain(i+1, ind+"  ")
		}
		return pre + chain(0, ind)
	}
	fail(s.Pos(), t.fset, "statement %T", s)
	return ""
}

func ifNotTerminated(body, rest []ast.Stmt) []ast.Stmt {
	if len(body) > 0 {
		l := body[len(body)-1]
		if _, ok := l.(*ast.ReturnStmt); ok {
			return nil
		}
		if _, ok := isPanicCall(l); ok {
			return nil
		}
		if is, ok := l.(*ast.IfStmt); ok && is.Else != nil {
			// both branches terminate?
			if eb, ok := is.Else.(*ast.BlockStmt); ok {
				if ifNotTerminated(is.Body.List, []ast.Stmt{nil}) == nil && ifNotTerminated(eb.List, []ast.Stmt{nil}) == nil {
					return nil
				}
			}
		}
	}
	return rest
}

func (t *tr) ret(s *ast.ReturnStmt) string {
	var parts []string
	for _, r := range s.Results {
		parts = append(parts, t.expr(r))
	}
	if len(parts) == 0 {
		fail(s.Pos(), t.fset, "bare return")
	}
	if len(parts) == 1 {
		return parts[0]
	}
	return "(" + strings.Join(parts, ", ") + ")"
}

func (t *tr) funcDecl(name string, fd *ast.FuncDecl) string {
	obj := t.info.Defs[fd.Name].(*types.Func)
	sig := obj.Type().(*types.Signature)
	t.cur = name
	t.curPanic = t.mayPanic[name]
	t.consts = map[types.Object]constant.Value{}
	t.pending = nil
	var params []string
	if sig.Recv() != nil {
		rt := sig.Recv().Type()
		params = append(params, fmt.Sprintf("(%s : %s)", leanIdent(sig.Recv().Name()), t.leanType(rt)))
	}
	for i := 0; i < sig.Params().Len(); i++ {
		p := sig.Params().At(i)
		params = append(params, fmt.Sprintf("(%s : %s)", leanIdent(p.Name()), t.leanType(p.Type())))
	}
	var rty string
	if sig.Results().Len() == 1 {
		rty = t.leanType(sig.Results().At(0).Type())
	} else {
		rty = t.leanType(sig.Results())
	}
	if t.curPanic {
		rty = "Except Err " + rty
	}
	body := t.stmts(fd.Body.List, "  ", fd)
	pos := t.fset.Position(fd.Pos())
	return fmt.Sprintf("/-- %s:%d -/\ndef %s %s : %s :=\n%s\n", filepath.Base(pos.Filename), pos.Line, name, strings.Join(params, " "), rty, body)
}

// funcName returns Recv_name or name.
func (t *tr) funcName(fd *ast.FuncDecl) string {
	name := fd.Name.Name
	if fd.Recv != nil {
		rt := t.info.TypeOf(fd.Recv.List[0].Type)
		if p, ok := rt.(*types.Pointer); ok {
			rt = p.Elem()
		}
		name = rt.(*types.Named).Obj().Name() + "_" + name
	}
	return name
}

// calleeName returns the translated name of a call's static callee in this package, or "".
func (t *tr) calleeName(c *ast.CallExpr) string {
	switch f := c.Fun.(type) {
	case *ast.Ident:
		if _, ok := t.funcs[f.Name]; ok {
			return f.Name
		}
	case *ast.SelectorExpr:
		if sel, ok := t.info.Selections[f]; ok && sel.Kind() == types.MethodVal {
			recv := sel.Recv()
			if p, ok := recv.(*types.Pointer); ok {
				recv = p.Elem()
			}
			if n, ok := recv.(*types.Named); ok {
				return n.Obj().Name() + "_" + f.Sel.Name
			}
		}
	}
	return ""
}

// inferPanics computes the set of functions that can panic (explicit panic
// statement, or a call to such a function), over all functions of the package.
func (t *tr) inferPanics() {
	direct := map[string]bool{}
	calls := map[string][]string{}
	for name, fd := range t.funcs {
		ast.Inspect(fd.Body, func(n ast.Node) bool {
			if c, ok := n.(*ast.CallExpr); ok {
				if id, ok := c.Fun.(*ast.Ident); ok && id.Name == "panic" {
					direct[name] = true
				}
				if cn := t.calleeName(c); cn != "" {
					calls[name] = append(calls[name], cn)
				}
			}
			return true
		})
	}
	t.mayPanic = direct
	for changed := true; changed; {
		changed = false
		for name, cs := range calls {
			if t.mayPanic[name] {
				continue
			}
			for _, c := range cs {
				if t.mayPanic[c] {
					t.mayPanic[name] = true
					changed = true
					break
				}
			}
		}
	}
}

type pkgSpec struct {
	dir, path, module string
	exclude           []string
	targets           []string
}

var specs = []pkgSpec{
	{dir: ".", path: "capnproto.org/go/capnp/v3", module: "Core",
		exclude: []string{"message_other.go"},
		targets: []string{
			"address_addSize", "address_addSizeUnchecked", "address_element", "address_addOffset",
			"Size_times", "Size_timesUnchecked", "Size_padToWord",
			"ObjectSize_isZero", "ObjectSize_isOneByte", "ObjectSize_isValid", "ObjectSize_pointerSize",
			"ObjectSize_totalSize", "ObjectSize_dataWordCount", "ObjectSize_totalWordCount",
			"BitOffset_offset", "BitOffset_mask",
			"pointerOffset_resolve", "nearPointerOffset", "rawStructPointer", "rawListPointer",
			"rawInterfacePointer", "rawFarPointer", "rawDoubleFarPointer", "landingPadNearPointer",
			"rawPointer_pointerType", "rawPointer_structSize", "rawPointer_listType", "rawPointer_numListElements",
			"rawPointer_elementSize", "rawPointer_totalListSize", "rawPointer_offset", "rawPointer_withOffset",
			"rawPointer_farAddress", "rawPointer_farSegment", "rawPointer_otherPointerType", "rawPointer_capabilityIndex",
			"bitListSize", "streamHeaderSize",
		}},
	{dir: "internal/strquote", path: "capnproto.org/go/capnp/v3/internal/strquote", module: "Strquote",
		targets: []string{"needsEscape"}},
}

func nsOf(sp pkgSpec) string {
	if sp.module == "Core" {
		return "Capnp.Gen"
	}
	return "Capnp.Gen." + sp.module
}

func translatePkg(repo string, sp pkgSpec) (string, []string, error) {
	dir := filepath.Join(repo, sp.dir)
	fset := token.NewFileSet()
	excl := map[string]bool{}
	for _, e := range sp.exclude {
		excl[e] = true
	}
	pkgs, err := parser.ParseDir(fset, dir, func(fi os.FileInfo) bool {
		return !strings.HasSuffix(fi.Name(), "_test.go") && !excl[fi.Name()] && !strings.HasPrefix(fi.Name(), "verif_")
	}, parser.ParseComments)
	if err != nil {
		return "", nil, err
	}
	var files []*ast.File
	for pn, p := range pkgs {
		if strings.HasSuffix(pn, "_test") || pn == "main" && sp.dir == "." {
			continue
		}
		var names []string
		for n := range p.Files {
			names = append(names, n)
		}
		sort.Strings(names)
		for _, n := range names {
			files = append(files, p.Files[n])
		}
	}
	if err := os.Chdir(dir); err != nil {
		return "", nil, err
	}
	info := &types.Info{Types: map[ast.Expr]types.TypeAndValue{}, Defs: map[*ast.Ident]types.Object{}, Uses: map[*ast.Ident]types.Object{}, Selections: map[*ast.SelectorExpr]*types.Selection{}}
	conf := types.Config{Importer: importer.ForCompiler(fset, "source", nil), Error: func(error) {}}
	pkg, err := conf.Check(sp.path, fset, files, info)
	if err != nil && pkg == nil {
		return "", nil, err
	}
	t := &tr{fset: fset, info: info, pkg: pkg, funcs: map[string]*ast.FuncDecl{}, want: map[string]bool{}, structs: map[string]bool{}}
	var order []string
	for _, f := range files {
		for _, d := range f.Decls {
			fd, ok := d.(*ast.FuncDecl)
			if !ok || fd.Body == nil {
				continue
			}
			if fd.Recv != nil {
				rt := info.TypeOf(fd.Recv.List[0].Type)
				if rt == nil {
					continue
				}
				if p, ok := rt.(*types.Pointer); ok {
					rt = p.Elem()
				}
				if _, ok := rt.(*types.Named); !ok {
					continue
				}
			}
			name := t.funcName(fd)
			t.funcs[name] = fd
			order = append(order, name)
		}
	}
	t.inferPanics()
	for _, n := range sp.targets {
		t.want[n] = true
	}
	done := map[string]string{}
	var problems []string
	for changed := true; changed; {
		changed = false
		var names []string
		for n := range t.want {
			names = append(names, n)
		}
		sort.Strings(names)
		for _, n := range names {
			if _, ok := done[n]; ok {
				continue
			}
			fd, ok := t.funcs[n]
			if !ok {
				problems = append(problems, "missing target "+n)
				done[n] = ""
				continue
			}
			func() {
				defer func() {
					if e := recover(); e != nil {
						problems = append(problems, fmt.Sprintf("%s: %v", n, e))
						done[n] = ""
					}
				}()
				done[n] = t.funcDecl(n, fd)
			}()
			changed = true
		}
	}
	var sb strings.Builder
	sb.WriteString("import Capnp.Prelude.Int\nset_option linter.unusedVariables false\n/-! GENERATED by go2lean from " + sp.path + " — do not edit. -/\nnamespace " + nsOf(sp) + "\nopen Capnp.Prelude\n\n")
	var snames []string
	for s := range t.structs {
		snames = append(snames, s)
	}
	sort.Strings(snames)
	for _, sname := range snames {
		st := pkg.Scope().Lookup(sname).Type().Underlying().(*types.Struct)
		fmt.Fprintf(&sb, "structure %s where\n", sname)
		for i := 0; i < st.NumFields(); i++ {
			fmt.Fprintf(&sb, "  %s : %s\n", st.Field(i).Name(), t.leanType(st.Field(i).Type()))
		}
		sb.WriteString("deriving Repr, BEq, DecidableEq, Inhabited\n\n")
	}
	emitted := map[string]bool{}
	deps := func(body string) []string {
		var ds []string
		for m := range done {
			if strings.Contains(body, "("+m+" ") {
				ds = append(ds, m)
			}
		}
		sort.Strings(ds)
		return ds
	}
	var emit func(n string)
	emit = func(n string) {
		if emitted[n] {
			return
		}
		emitted[n] = true
		for _, d := range deps(done[n]) {
			if d != n {
				emit(d)
			}
		}
		sb.WriteString(done[n])
		sb.WriteString("\n")
	}
	var emittedOrder []string
	for _, n := range order {
		if b, ok := done[n]; ok && b != "" {
			emit(n)
			emittedOrder = append(emittedOrder, n)
		}
	}
	// dispatcher for the translator-validation stream: name + flat Int args -> flat Int results
	sb.WriteString("/-- translator-validation entry point: evaluate a generated definition on flat integer arguments -/\n")
	sb.WriteString("def dispatch" + sp.module + " (name : String) (a : List Int) : Option (Except Err (List Int)) :=\n")
	sb.WriteString("  let g := fun (i : Nat) => a.getD i 0\n  match name with\n")
	for _, n := range emittedOrder {
		fd := t.funcs[n]
		sig := t.info.Defs[fd.Name].(*types.Func).Type().(*types.Signature)
		idx := 0
		var args []string
		ok := true
		addParam := func(ty types.Type) {
			a, n2, good := t.unflatten(ty, idx)
			if !good {
				ok = false
			}
			args = append(args, a)
			idx = n2
		}
		if sig.Recv() != nil {
			addParam(sig.Recv().Type())
		}
		for i := 0; i < sig.Params().Len(); i++ {
			addParam(sig.Params().At(i).Type())
		}
		var rty types.Type = sig.Results()
		if sig.Results().Len() == 1 {
			rty = sig.Results().At(0).Type()
		}
		fl, good := t.flatten(rty, "r")
		if !ok || !good {
			continue
		}
		call := "(" + n + " " + strings.Join(args, " ") + ")"
		if len(args) == 0 {
			call = n
		}
		if t.mayPanic[n] {
			fmt.Fprintf(&sb, "  | %q => some (match %s with | .error e => .error e | .ok r => .ok %s)\n", n, call, fl)
		} else {
			fmt.Fprintf(&sb, "  | %q => some (let r := %s; .ok %s)\n", n, call, fl)
		}
	}
	sb.WriteString("  | _ => none\n\nend " + nsOf(sp) + "\n")
	if targetsOut != "" {
		var tb strings.Builder
		for _, n := range emittedOrder {
			fd := t.funcs[n]
			sig := t.info.Defs[fd.Name].(*types.Func).Type().(*types.Signature)
			ar := 0
			count := func(ty types.Type) {
				if st, ok := ty.Underlying().(*types.Struct); ok {
					ar += st.NumFields()
				} else {
					ar++
				}
			}
			if sig.Recv() != nil {
				count(sig.Recv().Type())
			}
			for i := 0; i < sig.Params().Len(); i++ {
				count(sig.Params().At(i).Type())
			}
			fmt.Fprintf(&tb, "%s %d\n", n, ar)
		}
		f, _ := os.OpenFile(targetsOut, os.O_APPEND|os.O_CREATE|os.O_WRONLY, 0o644)
		f.WriteString(tb.String())
		f.Close()
	}
	if hookOut != "" {
		var hb strings.Builder
		hb.WriteString("//go:build verif\n\npackage " + pkg.Name() + "\n\n// Code generated by /verif/go2lean -hook; exports the unexported go2lean targets\n// to the verification harness as functions over flat integer lists.\n\n")
		hb.WriteString("// VerifCall evaluates the named function on flat integer arguments.\n// ok is false for an unknown name; a panic in the callee propagates.\nfunc VerifCall(name string, a []int64) (res []int64, ok bool) {\n\tb := func(x bool) int64 {\n\t\tif x {\n\t\t\treturn 1\n\t\t}\n\t\treturn 0\n\t}\n\t_ = b\n\tswitch name {\n")
		for _, n := range emittedOrder {
			fd := t.funcs[n]
			sig := t.info.Defs[fd.Name].(*types.Func).Type().(*types.Signature)
			idx := 0
			var args []string
			good := true
			goArg := func(ty types.Type) string {
				if bt := basicOf(ty); bt != nil {
					if bt.Info()&types.IsBoolean != 0 {
						idx++
						return fmt.Sprintf("a[%d] != 0", idx-1)
					}
					idx++
					return fmt.Sprintf("%s(a[%d])", types.TypeString(ty, types.RelativeTo(pkg)), idx-1)
				}
				if st, ok := ty.Underlying().(*types.Struct); ok {
					var fs []string
					for k := 0; k < st.NumFields(); k++ {
						idx++
						fs = append(fs, fmt.Sprintf("%s: %s(a[%d])", st.Field(k).Name(), types.TypeString(st.Field(k).Type(), types.RelativeTo(pkg)), idx-1))
					}
					return types.TypeString(ty, types.RelativeTo(pkg)) + "{" + strings.Join(fs, ", ") + "}"
				}
				good = false
				return ""
			}
			recv := ""
			if sig.Recv() != nil {
				recv = goArg(sig.Recv().Type())
			}
			for i := 0; i < sig.Params().Len(); i++ {
				args = append(args, goArg(sig.Params().At(i).Type()))
			}
			var rnames, rflat []string
			for i := 0; i < sig.Results().Len(); i++ {
				rn := fmt.Sprintf("r%d", i)
				rnames = append(rnames, rn)
				rt := sig.Results().At(i).Type()
				if bt := basicOf(rt); bt != nil {
					if bt.Info()&types.IsBoolean != 0 {
						rflat = append(rflat, "b("+rn+")")
					} else {
						rflat = append(rflat, "int64("+rn+")")
					}
				} else if st, ok := rt.Underlying().(*types.Struct); ok {
					for k := 0; k < st.NumFields(); k++ {
						rflat = append(rflat, "int64("+rn+"."+st.Field(k).Name()+")")
					}
				} else {
					good = false
				}
			}
			if !good {
				continue
			}
			call := fd.Name.Name + "(" + strings.Join(args, ", ") + ")"
			if recv != "" {
				call = recv + "." + call
			}
			fmt.Fprintf(&hb, "\tcase %q:\n\t\t%s := %s\n\t\treturn []int64{%s}, true\n", n, strings.Join(rnames, ", "), call, strings.Join(rflat, ", "))
		}
		hb.WriteString("\t}\n\treturn nil, false\n}\n")
		os.WriteFile(hookOut+"."+sp.module+".go", []byte(hb.String()), 0o644)
	}
	return sb.String(), problems, nil
}

// unflatten builds a Lean term of type ty from the flat argument list starting at index i.
func (t *tr) unflatten(ty types.Type, i int) (string, int, bool) {
	if b := basicOf(ty); b != nil {
		if b.Info()&types.IsInteger != 0 {
			return fmt.Sprintf("(%s (g %d))", wrapName(ty), i), i + 1, true
		}
		if b.Info()&types.IsBoolean != 0 {
			return fmt.Sprintf("(decide (g %d ≠ 0))", i), i + 1, true
		}
	}
	if st, ok := ty.Underlying().(*types.Struct); ok {
		if _, ok := ty.(*types.Named); ok {
			var parts []string
			good := true
			for k := 0; k < st.NumFields(); k++ {
				s, n2, g := t.unflatten(st.Field(k).Type(), i)
				good = good && g
				parts = append(parts, fmt.Sprintf("%s := %s", st.Field(k).Name(), s))
				i = n2
			}
			return "{ " + strings.Join(parts, ", ") + " }", i, good
		}
	}
	return "", i, false
}

// flatten renders the Lean term e of type ty as a List Int expression.
func (t *tr) flatten(ty types.Type, e string) (string, bool) {
	parts, ok := t.flatParts(ty, e)
	return "[" + strings.Join(parts, ", ") + "]", ok
}

func (t *tr) flatParts(ty types.Type, e string) ([]string, bool) {
	if b := basicOf(ty); b != nil {
		if b.Info()&types.IsInteger != 0 {
			return []string{"(wrapI64 " + e + ")"}, true
		}
		if b.Info()&types.IsBoolean != 0 {
			return []string{fmt.Sprintf("(if %s then 1 else 0)", e)}, true
		}
	}
	if tup, ok := ty.(*types.Tuple); ok {
		var out []string
		good := true
		for k := 0; k < tup.Len(); k++ {
			proj := e
			// nested pairs: (a, b, c) = (a, (b, c))
			for j := 0; j < k; j++ {
				proj = proj + ".2"
			}
			if k < tup.Len()-1 {
				proj = proj + ".1"
			}
			p, g := t.flatParts(tup.At(k).Type(), proj)
			good = good && g
			out = append(out, p...)
		}
		return out, good
	}
	if st, ok := ty.Underlying().(*types.Struct); ok {
		var out []string
		good := true
		for k := 0; k < st.NumFields(); k++ {
			p, g := t.flatParts(st.Field(k).Type(), e+"."+st.Field(k).Name())
			good = good && g
			out = append(out, p...)
		}
		return out, good
	}
	return nil, false
}

var hookOut, targetsOut string

func main() {
	flag.StringVar(&hookOut, "hook", "", "also emit the Go export hook (one-off) to this path prefix")
	flag.StringVar(&targetsOut, "targets", "", "append 'name arity' lines of the translated functions to this file")
	repo := flag.String("repo", "/repo", "repository root")
	out := flag.String("out", "", "output directory for the generated Lean files")
	flag.Parse()
	absRepo, _ := filepath.Abs(*repo)
	absOut, _ := filepath.Abs(*out)
	rc := 0
	for _, sp := range specs {
		var text string
		var problems []string
		var err error
		func() {
			defer func() {
				if e := recover(); e != nil {
					err = fmt.Errorf("%v", e)
				}
			}()
			text, problems, err = translatePkg(absRepo, sp)
		}()
		if err != nil {
			fmt.Fprintf(os.Stderr, "go2lean: %s: %v\n", sp.path, err)
			rc = 1
			continue
		}
		for _, p := range problems {
			fmt.Fprintf(os.Stderr, "go2lean: unsupported: %s\n", p)
			rc = 1
		}
		if err := os.WriteFile(filepath.Join(absOut, sp.module+".lean"), []byte(text), 0o644); err != nil {
			fmt.Fprintln(os.Stderr, err)
			rc = 1
		}
	}
	os.Exit(rc)
}
