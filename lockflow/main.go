// lockflow extracts, from /repo/rpc/*.go, the control-flow skeleton of every function that touches Conn.mu or the
// sender lock (or calls something with a lock contract), as terms of Capnp.Lock.Prog, together with one theorem per
// function: it is balanced with respect to its contract.  The output is lean/Capnp/Gen/Locks.lean.
//
// What is recognised (by name; the rpc package has exactly one mutex field called mu, checked below):
//   X.mu.Lock() / X.mu.Unlock()                 lockMu / unlockMu
//   if err := X.tryLockSender(ctx); err != nil  tryLock
//   X.lockSender() / X.unlockSender()           lockSender / unlockSender
//   X.sendMessage(..), X.shutdown(..), ans.sendReturn(..), ans.sendException(..)   call with their contracts
//   calls that may run application code or wait for other goroutines            needMuFree
//   transport operations (NewMessage, send, release, sendMsg, releaseMsg, newReturn)   needSender (not in shutdown)
//   calls to other functions of the package that have a skeleton                call with their contracts
package main

import (
	"flag"
	"fmt"
	"go/ast"
	"go/parser"
	"go/token"
	"os"
	"path/filepath"
	"sort"
	"strings"
)

type L struct{ mu, snd bool }

func (l L) lean() string { return fmt.Sprintf("⟨%v, %v⟩", l.mu, l.snd) }

type contract struct{ pre, post L }

var free = L{false, false}
var muHeld = L{true, false}
var both = L{true, true}
var sndOnly = L{false, true}

// contracts of the functions whose entry/exit state is not "nothing held" (from their doc comments)
var contracts = map[string]contract{
	"Conn.sendMessage":       {muHeld, muHeld},
	"Conn.shutdown":          {muHeld, free},
	"answer.sendReturn":      {both, both},
	"answer.sendException":   {both, both},
	"answer.destroy":         {muHeld, muHeld}, // entered with mu held (sender: either; analysed with mu only)
	"Conn.newReturn":         {sndOnly, sndOnly},
	"Conn.recvPayload":       {muHeld, muHeld},
	"Conn.recvCap":           {muHeld, muHeld},
	"Conn.parseCall":         {muHeld, muHeld},
	"Conn.parseReturn":       {muHeld, muHeld},
	"Conn.addImport":         {muHeld, muHeld},
	"Conn.sendCap":           {muHeld, muHeld},
	"Conn.fillPayloadCapTable": {muHeld, muHeld},
	"Conn.releaseExport":     {muHeld, muHeld},
	"Conn.releaseExports":    {muHeld, muHeld},
	"Conn.embargo":           {muHeld, muHeld},
	"Conn.newQuestion":       {muHeld, muHeld},
	"Conn.startTask":         {muHeld, muHeld},
	"question.mark":          {muHeld, muHeld},
}

// the lock primitives themselves are trusted
var primitives = map[string]bool{"Conn.tryLockSender": true, "Conn.lockSender": true, "Conn.unlockSender": true}

// methods that may run application code, or wait for other goroutines: mu must not be held
var needMuFree = map[string]bool{
	"Release": true, "release": true, "RecvCall": true, "PipelineRecv": true, "SendCall": true, "PipelineSend": true,
	"Fulfill": true, "Reject": true, "ReleaseClients": true, "lift": true, "State": true, "Wait": true,
	"extractCapTable": true, "returnAnswer": true, "Return": true, "AllocResults": true, "PlaceArgs": true,
}

// transport operations: sender lock held, mu not
var needSender = map[string]bool{"NewMessage": true, "sendMsg": true, "releaseMsg": true}
var needSenderIdent = map[string]bool{"send": true, "release": true}

type unit struct {
	name string
	body *ast.BlockStmt
	recv string
}

type ex struct {
	fset    *token.FileSet
	muOwners   map[string]bool            // struct types with a field named mu
	identTypes map[string]map[string]bool // receiver / parameter name -> its declared types
	units   []*unit
	byName  map[string]*unit
	progs   map[string]string
	rel     map[string]bool // unit has lock-relevant content
	cur     *unit
	nlit    int
	errs    []string
	labels  map[string][]ast.Stmt
	inShut  bool
	pending []*unit
}

func main() {
	repo := flag.String("repo", "/repo", "")
	out := flag.String("out", "", "")
	flag.Parse()
	fset := token.NewFileSet()
	files, _ := filepath.Glob(filepath.Join(*repo, "rpc", "*.go"))
	sort.Strings(files)
	x := &ex{fset: fset, byName: map[string]*unit{}, progs: map[string]string{}, rel: map[string]bool{}, muOwners: map[string]bool{}, identTypes: map[string]map[string]bool{}}
	for _, f := range files {
		switch filepath.Base(f) {
		case "rpc.go", "answer.go", "question.go", "import.go", "export.go":
		default:
			continue // transport.go, idgen.go, … do not know the Conn's locks
		}
		af, err := parser.ParseFile(fset, f, nil, 0)
		if err != nil {
			fmt.Fprintln(os.Stderr, err)
			os.Exit(1)
		}
		// which struct types have a mutex field named mu (the Conn's is the one the property is about), and which
		// identifiers name values of those types (receivers and parameters)
		ast.Inspect(af, func(n ast.Node) bool {
			ts, ok := n.(*ast.TypeSpec)
			if !ok {
				return true
			}
			if st, ok := ts.Type.(*ast.StructType); ok {
				for _, fl := range st.Fields.List {
					for _, nm := range fl.Names {
						if nm.Name == "mu" {
							x.muOwners[ts.Name.Name] = true
						}
					}
				}
			}
			return true
		})
		ast.Inspect(af, func(n ast.Node) bool {
			var lists []*ast.FieldList
			switch v := n.(type) {
			case *ast.FuncDecl:
				lists = append(lists, v.Recv, v.Type.Params)
			case *ast.FuncLit:
				lists = append(lists, v.Type.Params)
			}
			for _, l := range lists {
				if l == nil {
					continue
				}
				for _, fl := range l.List {
					t := fl.Type
					if s, ok := t.(*ast.StarExpr); ok {
						t = s.X
					}
					id, ok := t.(*ast.Ident)
					if !ok {
						continue
					}
					for _, nm := range fl.Names {
						if x.identTypes[nm.Name] == nil {
							x.identTypes[nm.Name] = map[string]bool{}
						}
						x.identTypes[nm.Name][id.Name] = true
					}
				}
			}
			return true
		})
		for _, d := range af.Decls {
			fd, ok := d.(*ast.FuncDecl)
			if !ok || fd.Body == nil {
				continue
			}
			name := fd.Name.Name
			recv := ""
			if fd.Recv != nil && len(fd.Recv.List) == 1 {
				t := fd.Recv.List[0].Type
				if s, ok := t.(*ast.StarExpr); ok {
					t = s.X
				}
				if id, ok := t.(*ast.Ident); ok {
					recv = id.Name
					name = recv + "." + name
				}
			}
			u := &unit{name: name, body: fd.Body, recv: recv}
			x.units = append(x.units, u)
			x.byName[name] = u
		}
	}
	if !x.muOwners["Conn"] {
		fmt.Fprintln(os.Stderr, "lockflow: struct Conn has no field named mu")
		os.Exit(1)
	}
	// which units are lock-relevant (fixpoint over calls)
	direct := map[string]bool{}
	calls := map[string][]string{}
	for _, u := range x.units {
		ast.Inspect(u.body, func(n ast.Node) bool {
			ce, ok := n.(*ast.CallExpr)
			if !ok {
				return true
			}
			k, tgt := x.classify(ce)
			if k != "" && k != "pkg" && k != "panic" {
				direct[u.name] = true
			}
			if k == "pkg" {
				calls[u.name] = append(calls[u.name], tgt)
			}
			return true
		})
	}
	for name := range contracts {
		direct[name] = true
	}
	changed := true
	for changed {
		changed = false
		for _, u := range x.units {
			if direct[u.name] {
				continue
			}
			for _, c := range calls[u.name] {
				if direct[c] && !primitives[c] {
					direct[u.name] = true
					changed = true
				}
			}
		}
	}
	x.rel = direct
	var names []string
	for _, u := range x.units {
		if x.rel[u.name] && !primitives[u.name] {
			x.pending = append(x.pending, u)
		}
	}
	var order []string
	for len(x.pending) > 0 {
		u := x.pending[0]
		x.pending = x.pending[1:]
		x.cur = u
		x.nlit = 0
		x.inShut = u.name == "Conn.shutdown"
		x.labels = map[string][]ast.Stmt{}
		x.collectLabels(u.body.List)
		x.progs[u.name] = x.block(u.body.List, 0)
		order = append(order, u.name)
	}
	_ = names
	var b strings.Builder
	b.WriteString("import Capnp.Lock.Check\n/-! GENERATED by /verif/lockflow from /repo/rpc/*.go — do not edit. -/\nnamespace Capnp.Gen.Locks\nopen Capnp.Lock Capnp.Lock.Prog\n\n")
	for _, n := range order {
		id := strings.NewReplacer(".", "_").Replace(n)
		c, ok := contracts[n]
		if !ok {
			c = contract{free, free}
		}
		if strings.Contains(n, "#cb") {
			c = contract{sndOnly, sndOnly} // callbacks of sendMessage run with the sender lock, without mu
		}
		fmt.Fprintf(&b, "def %s : Prog :=\n  %s\n\n", id, x.progs[n])
		fmt.Fprintf(&b, "/-- `%s` keeps its lock contract on every path: entered with %s, left with %s -/\n", n, c.pre.lean(), c.post.lean())
		fmt.Fprintf(&b, "theorem %s_balanced : balanced %s %s %s = true := by decide\n\n", id, id, c.pre.lean(), c.post.lean())
	}
	b.WriteString("end Capnp.Gen.Locks\n")
	if len(x.errs) > 0 {
		for _, e := range x.errs {
			fmt.Fprintln(os.Stderr, "lockflow:", e)
		}
		os.Exit(1)
	}
	if *out == "" {
		fmt.Print(b.String())
		return
	}
	if err := os.WriteFile(*out, []byte(b.String()), 0o644); err != nil {
		fmt.Fprintln(os.Stderr, err)
		os.Exit(1)
	}
	var tn []string
	for _, n := range order {
		tn = append(tn, "Capnp.Gen.Locks."+strings.NewReplacer(".", "_").Replace(n)+"_balanced")
	}
	fmt.Println(strings.Join(tn, "\n"))
}

func (x *ex) fail(n ast.Node, msg string) {
	x.errs = append(x.errs, fmt.Sprintf("%s: %s: %s", x.fset.Position(n.Pos()), x.cur.name, msg))
}

// whoseMu: the owner of `<e>.mu`: "Conn", "other" (a struct with a mutex of its own) or "" (cannot tell).
// <x>.c is a Conn (the back pointer every table entry has); an identifier is what receivers and parameters of
// that name are declared as throughout the package.
func (x *ex) whoseMu(e ast.Expr) string {
	switch v := e.(type) {
	case *ast.SelectorExpr:
		if v.Sel.Name == "c" {
			return "Conn"
		}
	case *ast.Ident:
		conn, other := false, false
		for ty := range x.identTypes[v.Name] {
			if ty == "Conn" {
				conn = true
			} else if x.muOwners[ty] {
				other = true
			}
		}
		switch {
		case conn && !other:
			return "Conn"
		case other && !conn:
			return "other"
		}
	}
	return ""
}

// classify a call: kind ("lockMu", "unlockMu", "try", "lockSender", "unlockSender", "muFree", "sender", "pkg") and target
func (x *ex) classify(ce *ast.CallExpr) (string, string) {
	switch f := ce.Fun.(type) {
	case *ast.SelectorExpr:
		name := f.Sel.Name
		if in, ok := f.X.(*ast.SelectorExpr); ok && in.Sel.Name == "mu" && (name == "Lock" || name == "Unlock") {
			switch x.whoseMu(in.X) {
			case "Conn":
				if name == "Lock" {
					return "lockMu", ""
				}
				return "unlockMu", ""
			case "other":
				return "", "" // another struct's own mutex: not one of the Conn's two locks
			default:
				fmt.Fprintf(os.Stderr, "lockflow: %s: cannot tell whose mu this is\n", x.fset.Position(ce.Pos()))
				os.Exit(1)
			}
		}
		switch name {
		case "tryLockSender":
			return "try", ""
		case "lockSender":
			return "lockSender", ""
		case "unlockSender":
			return "unlockSender", ""
		}
		// methods of this package
		for _, recv := range []string{"Conn", "answer", "question", "importClient", "embargo", "releaseList", "senderLoopback", "bootstrapClient"} {
			if _, ok := x.byName[recv+"."+name]; ok {
				// disambiguate by the usual receiver names
				if x.recvMatches(f.X, recv) {
					if needMuFree[name] {
						return "muFree", ""
					}
					return "pkg", recv + "." + name
				}
			}
		}
		if needMuFree[name] {
			return "muFree", ""
		}
		if needSender[name] {
			if name == "NewMessage" {
				if in, ok := f.X.(*ast.SelectorExpr); !ok || in.Sel.Name != "transport" {
					return "", ""
				}
			}
			return "sender", ""
		}
	case *ast.Ident:
		if _, ok := x.byName[f.Name]; ok {
			if needMuFree[f.Name] {
				return "muFree", ""
			}
			return "pkg", f.Name
		}
		if needSenderIdent[f.Name] {
			return "sender", ""
		}
		if needMuFree[f.Name] {
			return "muFree", ""
		}
		if f.Name == "panic" {
			return "panic", ""
		}
	}
	return "", ""
}

// recvMatches: does expression e plausibly denote a value of the given receiver type (by the package's naming habits)?
func (x *ex) recvMatches(e ast.Expr, recv string) bool {
	last := ""
	switch v := e.(type) {
	case *ast.Ident:
		last = v.Name
	case *ast.SelectorExpr:
		last = v.Sel.Name
	case *ast.CallExpr, *ast.IndexExpr, *ast.ParenExpr, *ast.UnaryExpr:
		return recv == "releaseList" || recv == "embargo" || recv == "senderLoopback"
	}
	switch recv {
	case "Conn":
		return last == "c"
	case "answer":
		return last == "ans" || last == "a" || last == "tgtAns"
	case "question":
		return last == "q" || last == "q2"
	case "importClient":
		return last == "ic"
	case "embargo":
		return last == "e"
	case "releaseList":
		return last == "rl"
	case "senderLoopback":
		return last == "sl"
	case "bootstrapClient":
		return last == "bc"
	}
	return false
}

func (x *ex) collectLabels(stmts []ast.Stmt) {
	for i, s := range stmts {
		if ls, ok := s.(*ast.LabeledStmt); ok {
			rest := append([]ast.Stmt{ls.Stmt}, stmts[i+1:]...)
			x.labels[ls.Label.Name] = rest
		}
	}
}

func seq(parts []string) string {
	var ps []string
	for _, p := range parts {
		if p != "skip" && p != "" {
			ps = append(ps, p)
		}
	}
	if len(ps) == 0 {
		return "skip"
	}
	r := ps[len(ps)-1]
	for i := len(ps) - 2; i >= 0; i-- {
		r = "seq (" + ps[i] + ") (" + r + ")"
	}
	return r
}

func branch(alts []string) string {
	return "branch [" + strings.Join(alts, ", ") + "]"
}

func (x *ex) block(stmts []ast.Stmt, depth int) string {
	var parts []string
	for _, s := range stmts {
		parts = append(parts, x.stmt(s, depth))
	}
	return seq(parts)
}

// exprs: the lock-relevant calls inside expressions, in evaluation order
func (x *ex) exprs(es ...ast.Expr) string {
	var parts []string
	for _, e := range es {
		if e == nil {
			continue
		}
		ast.Inspect(e, func(n ast.Node) bool {
			switch v := n.(type) {
			case *ast.FuncLit:
				parts = append(parts, x.funcLit(v, "lit"))
				return false
			case *ast.CallExpr:
				// arguments first
				for _, a := range v.Args {
					parts = append(parts, x.exprs(a))
				}
				if fl, ok := v.Fun.(*ast.FuncLit); ok {
					// immediately invoked literal: inline
					parts = append(parts, x.block(fl.Body.List, 0))
					return false
				}
				parts = append(parts, x.exprs(v.Fun.(ast.Expr)))
				parts = append(parts, x.call(v))
				return false
			}
			return true
		})
	}
	return seq(parts)
}

func (x *ex) funcLit(fl *ast.FuncLit, kind string) string {
	// a function literal that is stored, returned, started as a goroutine or passed as a callback: its own unit
	relevant := false
	ast.Inspect(fl.Body, func(n ast.Node) bool {
		if ce, ok := n.(*ast.CallExpr); ok {
			if k, tgt := x.classify(ce); k != "" && (k != "pkg" || x.rel[tgt]) {
				relevant = true
			}
		}
		return true
	})
	if !relevant {
		return "skip"
	}
	x.nlit++
	name := fmt.Sprintf("%s#%s%d", x.cur.name, kind, x.nlit)
	name = strings.NewReplacer("#", "_").Replace(name)
	if kind == "cb" {
		name = strings.Replace(name, "_cb", "#cb", 1)
	}
	u := &unit{name: name, body: fl.Body}
	x.pending = append(x.pending, u)
	x.rel[name] = true
	return "skip"
}

func (x *ex) call(ce *ast.CallExpr) string {
	k, tgt := x.classify(ce)
	switch k {
	case "lockMu":
		return "lockMu"
	case "unlockMu":
		return "unlockMu"
	case "lockSender":
		return "lockSender"
	case "unlockSender":
		return "unlockSender"
	case "try":
		x.fail(ce, "tryLockSender used outside `if err := X.tryLockSender(ctx); err != nil {…}`")
	case "muFree":
		return "needMuFree"
	case "sender":
		if x.inShut {
			return "skip" // shutdown is the only task left: it uses the transport without the sender lock
		}
		return "needSender"
	case "panic":
		return "stop"
	case "pkg":
		if primitives[tgt] || !x.rel[tgt] {
			return "skip"
		}
		c, ok := contracts[tgt]
		if !ok {
			c = contract{free, free}
		}
		if c.pre == c.post && c.pre == muHeld {
			return "needMu" // a helper that runs entirely under mu (with or without the sender lock) and touches no lock
		}
		return fmt.Sprintf("call %s %s", c.pre.lean(), c.post.lean())
	}
	return "skip"
}

func isTryLock(s *ast.IfStmt) bool {
	as, ok := s.Init.(*ast.AssignStmt)
	if !ok || len(as.Rhs) != 1 {
		return false
	}
	ce, ok := as.Rhs[0].(*ast.CallExpr)
	if !ok {
		return false
	}
	se, ok := ce.Fun.(*ast.SelectorExpr)
	if !ok || se.Sel.Name != "tryLockSender" {
		return false
	}
	be, ok := s.Cond.(*ast.BinaryExpr)
	return ok && be.Op == token.NEQ
}

func (x *ex) stmt(s ast.Stmt, depth int) string {
	switch v := s.(type) {
	case nil:
		return "skip"
	case *ast.ExprStmt:
		return x.exprs(v.X)
	case *ast.AssignStmt:
		return x.exprs(append(append([]ast.Expr{}, v.Rhs...), v.Lhs...)...)
	case *ast.DeclStmt:
		var es []ast.Expr
		if gd, ok := v.Decl.(*ast.GenDecl); ok {
			for _, sp := range gd.Specs {
				if vs, ok := sp.(*ast.ValueSpec); ok {
					es = append(es, vs.Values...)
				}
			}
		}
		return x.exprs(es...)
	case *ast.IncDecStmt, *ast.EmptyStmt:
		return "skip"
	case *ast.SendStmt:
		return x.exprs(v.Chan, v.Value)
	case *ast.BlockStmt:
		return x.block(v.List, depth)
	case *ast.LabeledStmt:
		return x.stmt(v.Stmt, depth)
	case *ast.GoStmt:
		if fl, ok := v.Call.Fun.(*ast.FuncLit); ok {
			var parts []string
			for _, a := range v.Call.Args {
				parts = append(parts, x.exprs(a))
			}
			parts = append(parts, x.funcLit(fl, "go"))
			return seq(parts)
		}
		return "skip" // `go f(x)`: f is analysed on its own, started with nothing held
	case *ast.DeferStmt:
		relevant := false
		ast.Inspect(v.Call, func(n ast.Node) bool {
			if ce, ok := n.(*ast.CallExpr); ok {
				if k, _ := x.classify(ce); k != "" && k != "pkg" && k != "muFree" {
					relevant = true
				}
			}
			return true
		})
		if relevant {
			x.fail(v, "defer with a lock operation is not supported")
		}
		return "skip"
	case *ast.ReturnStmt:
		return seq([]string{x.exprs(v.Results...), "ret"})
	case *ast.BranchStmt:
		switch v.Tok {
		case token.BREAK:
			if v.Label != nil {
				x.fail(v, "labelled break")
			}
			return "brk"
		case token.CONTINUE:
			if v.Label != nil {
				x.fail(v, "labelled continue")
			}
			return "cont"
		case token.GOTO:
			rest, ok := x.labels[v.Label.Name]
			if !ok {
				x.fail(v, "goto to a label outside the function's top-level block")
				return "stop"
			}
			return seq([]string{x.block(rest, depth), "ret"})
		}
		x.fail(v, "fallthrough")
		return "skip"
	case *ast.IfStmt:
		if isTryLock(v) {
			if v.Else != nil {
				x.fail(v, "tryLockSender if with else")
			}
			return "tryLock (" + x.block(v.Body.List, depth) + ") skip"
		}
		init := x.stmt(v.Init, depth)
		cond := x.exprs(v.Cond)
		then := x.block(v.Body.List, depth)
		els := "skip"
		if v.Else != nil {
			els = x.stmt(v.Else, depth)
		}
		if then == "skip" && els == "skip" {
			return seq([]string{init, cond})
		}
		return seq([]string{init, cond, branch([]string{then, els})})
	case *ast.ForStmt:
		body := seq([]string{x.exprs(v.Cond), x.block(v.Body.List, depth+1), x.stmt(v.Post, depth)})
		if body == "skip" {
			return x.stmt(v.Init, depth)
		}
		return seq([]string{x.stmt(v.Init, depth), "loop (" + body + ")"})
	case *ast.RangeStmt:
		body := x.block(v.Body.List, depth+1)
		if body == "skip" {
			return x.exprs(v.X)
		}
		return seq([]string{x.exprs(v.X), "loop (" + body + ")"})
	case *ast.SwitchStmt:
		return x.cases(v.Init, v.Tag, v.Body, true, depth)
	case *ast.TypeSwitchStmt:
		return x.cases(v.Init, nil, v.Body, true, depth)
	case *ast.SelectStmt:
		return x.cases(nil, nil, v.Body, false, depth)
	}
	x.fail(s, fmt.Sprintf("unsupported statement %T", s))
	return "skip"
}

func (x *ex) cases(init ast.Stmt, tag ast.Expr, body *ast.BlockStmt, implicitDefault bool, depth int) string {
	var alts []string
	hasDefault := false
	all := true
	for _, c := range body.List {
		var list []ast.Stmt
		var pre string
		switch cc := c.(type) {
		case *ast.CaseClause:
			if cc.List == nil {
				hasDefault = true
			}
			pre = x.exprs(cc.List...)
			list = cc.Body
		case *ast.CommClause:
			if cc.Comm == nil {
				hasDefault = true
			} else {
				pre = x.stmt(cc.Comm, depth)
			}
			list = cc.Body
		}
		a := seq([]string{pre, x.block(list, depth)})
		if a != "skip" {
			all = false
		}
		alts = append(alts, a)
	}
	if implicitDefault && !hasDefault {
		alts = append(alts, "skip")
	}
	head := seq([]string{x.stmt(init, depth), x.exprs(tag)})
	if all {
		return head
	}
	return seq([]string{head, "catchBrk (" + branch(alts) + ")"})
}
