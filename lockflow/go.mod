module lockflow

go 1.23
